/* prelude/spec/dp.h — representation invariant of DetailedPlacement as LOCAL facts (DESIGN.md 5, C02/C04),
 * written from the legality conditions of the property statement (cells of a row ordered, disjoint, inside the
 * row segment, bottom edge on the row, orientation prescribed by the polarity) plus doubly-linked-list symmetry.
 * Include with the DetailedPlacement member macros OFF. */
#ifndef VERIF_SPEC_DP_H
#define VERIF_SPEC_DP_H
#define DP_LIM (1 << 23)
static inline bool dp_in_cells(const DetailedPlacement *p, int k) { return k >= 0 && k < p->cellWidth__size; }
static inline bool dp_in_rows(const DetailedPlacement *p, int r) { return r >= 0 && r < p->rows__size; }
/* orientation facts of a placed cell (C04) */
static inline bool OWF(const DetailedPlacement *p, int k) {
  int row = p->cellRow_[k];
  if (row == -1) return true;
  CellRowPolarity pol = p->cellRowPolarity_[k];
  CellOrientation want = spec_orientation_in_row(pol, p->rows_[row].orientation);
  if (want == CellOrientation_INVALID) return false;                 /* never on a row its polarity forbids */
  if (want != CellOrientation_UNKNOWN && p->cellOrientation_[k] != want) return false;   /* exactly the prescribed orientation */
  return true;
}
static inline bool LWF(const DetailedPlacement *p, int k) {
  int row = p->cellRow_[k], pc = p->cellPred_[k], nc = p->cellNext_[k];
  if (row < -1 || row >= p->rows__size) return false;
  if (row == -1) return pc == -1 && nc == -1;
  if (p->cellWidth_[k] <= 0) return false;
  if (p->cellY_[k] != p->rows_[row].minY) return false;
  if (pc != -1) {
    if (!dp_in_cells(p, pc) || p->cellRow_[pc] != row || p->cellNext_[pc] != k) return false;
    if ((long)p->cellX_[pc] + p->cellWidth_[pc] > p->cellX_[k]) return false;
  } else {
    if (p->rowFirstCell_[row] != k || p->cellX_[k] < p->rows_[row].minX) return false;
  }
  if (nc != -1) {
    if (!dp_in_cells(p, nc) || p->cellRow_[nc] != row || p->cellPred_[nc] != k) return false;
    if ((long)p->cellX_[k] + p->cellWidth_[k] > p->cellX_[nc]) return false;
  } else {
    if (p->rowLastCell_[row] != k || (long)p->cellX_[k] + p->cellWidth_[k] > p->rows_[row].maxX) return false;
  }
  return OWF(p, k);
}
static inline bool RWF(const DetailedPlacement *p, int r) {
  int fc = p->rowFirstCell_[r], lc = p->rowLastCell_[r];
  if ((fc == -1) != (lc == -1)) return false;
  if (fc == -1) return true;
  return dp_in_cells(p, fc) && dp_in_cells(p, lc) && p->cellRow_[fc] == r && p->cellPred_[fc] == -1 && p->cellRow_[lc] == r && p->cellNext_[lc] == -1;
}
static inline bool DPMAG(const DetailedPlacement *p, int k) { return p->cellX_[k] >= -DP_LIM && p->cellX_[k] <= DP_LIM && p->cellWidth_[k] <= DP_LIM && VALID_POLARITY(p->cellRowPolarity_[k]); }
static inline bool ROWMAG(const DetailedPlacement *p, int r) { return p->rows_[r].minX >= -DP_LIM && p->rows_[r].maxX <= DP_LIM && p->rows_[r].minX <= p->rows_[r].maxX; }
/* the quantified invariant instantiated at one index (-1 = "no cell") */
static inline bool INV_at(const DetailedPlacement *p, int k) {
  return k == -1 || (dp_in_cells(p, k) && LWF(p, k) && DPMAG(p, k) && (p->cellRow_[k] == -1 || (RWF(p, p->cellRow_[k]) && ROWMAG(p, p->cellRow_[k]))));
}
/* lighter instance used where the row facts are supplied separately */
static inline bool INV_lite(const DetailedPlacement *p, int k) { return k == -1 || (dp_in_cells(p, k) && LWF(p, k) && DPMAG(p, k)); }
static inline int dp_nxt(const DetailedPlacement *p, int k) { return (k == -1 || !dp_in_cells(p, k)) ? -1 : p->cellNext_[k]; }
static inline int dp_prv(const DetailedPlacement *p, int k) { return (k == -1 || !dp_in_cells(p, k)) ? -1 : p->cellPred_[k]; }
static inline bool RINV_at(const DetailedPlacement *p, int r) { return dp_in_rows(p, r) && RWF(p, r) && ROWMAG(p, r) && INV_at(p, p->rowFirstCell_[r]) && INV_at(p, p->rowLastCell_[r]); }
#endif
