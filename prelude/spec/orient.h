/* prelude/spec/orient.h — specification of row polarity / orientation semantics, written from
 * the property statements (C04, C09) and the documentation of CellRowPolarity / CellOrientation
 * in coloquinte.hpp, NOT from the implementation in parameters.cpp. */
#ifndef VERIF_SPEC_ORIENT_H
#define VERIF_SPEC_ORIENT_H

/* "opposite" row orientation = mirror about the x axis (N <--> FS): it exchanges
 * N/FS, S/FN, E/FW, W/FE; anything that is not one of the eight orientations is INVALID */
static inline CellOrientation spec_opposite(CellOrientation o) {
  return o == CellOrientation_N ? CellOrientation_FS : o == CellOrientation_FS ? CellOrientation_N
       : o == CellOrientation_S ? CellOrientation_FN : o == CellOrientation_FN ? CellOrientation_S
       : o == CellOrientation_E ? CellOrientation_FW : o == CellOrientation_FW ? CellOrientation_E
       : o == CellOrientation_W ? CellOrientation_FE : o == CellOrientation_FE ? CellOrientation_W
       : CellOrientation_INVALID;
}
/* a cell view is turned (width and height exchanged) for the 90/270 degree orientations */
static inline bool spec_is_turn(CellOrientation o) {
  return o == CellOrientation_W || o == CellOrientation_E || o == CellOrientation_FW || o == CellOrientation_FE;
}
/* orientation prescribed for a cell of polarity p whose bottom edge sits on a row of orientation r:
 * ANY: keep the cell's own orientation (UNKNOWN = "no prescription");
 * SAME: the row's; OPPOSITE: the mirrored row orientation;
 * NW: rows starting with N or W (flipping allowed: FN, FW), otherwise forbidden (INVALID);
 * SE: rows starting with S or E (flipping allowed: FS, FE), otherwise forbidden (INVALID). */
static inline CellOrientation spec_orientation_in_row(CellRowPolarity p, CellOrientation r) {
  if (p == CellRowPolarity_ANY) return CellOrientation_UNKNOWN;
  if (p == CellRowPolarity_SAME) return r;
  if (p == CellRowPolarity_OPPOSITE) return spec_opposite(r);
  if (p == CellRowPolarity_NW)
    return (r == CellOrientation_N || r == CellOrientation_W || r == CellOrientation_FN || r == CellOrientation_FW) ? r : CellOrientation_INVALID;
  if (p == CellRowPolarity_SE)
    return (r == CellOrientation_S || r == CellOrientation_E || r == CellOrientation_FS || r == CellOrientation_FE) ? r : CellOrientation_INVALID;
  return CellOrientation_INVALID;
}
#define VALID_POLARITY(p) ((int)(p) >= 0 && (int)(p) <= 4)
#define VALID_ORIENT8(o) ((int)(o) >= 0 && (int)(o) <= 7)

/* DEF/LEF orientation semantics of a pin offset (px,py) in a cell of unplaced size w x h
 * (C09): position of the pin relative to the lower-left corner of the placed outline. */
static inline int spec_placed_w(CellOrientation o, int w, int h) { return spec_is_turn(o) ? h : w; }
static inline int spec_placed_h(CellOrientation o, int w, int h) { return spec_is_turn(o) ? w : h; }
static inline int spec_pin_x(CellOrientation o, int w, int h, int px, int py) {
  switch (o) {
    case CellOrientation_N:  return px;       /* R0 */
    case CellOrientation_S:  return w - px;   /* R180 */
    case CellOrientation_W:  return h - py;   /* R90: (x,y) -> (-y,x), shifted by h */
    case CellOrientation_E:  return py;       /* R270: (x,y) -> (y,-x), shifted by w in y */
    case CellOrientation_FN: return w - px;   /* MY: mirror about the y axis */
    case CellOrientation_FS: return px;       /* MX: mirror about the x axis */
    case CellOrientation_FW: return py;       /* MX then R90 */
    case CellOrientation_FE: return h - py;   /* MY then R90 */
    default: return px;
  }
}
static inline int spec_pin_y(CellOrientation o, int w, int h, int px, int py) {
  switch (o) {
    case CellOrientation_N:  return py;
    case CellOrientation_S:  return h - py;
    case CellOrientation_W:  return px;
    case CellOrientation_E:  return w - px;
    case CellOrientation_FN: return py;
    case CellOrientation_FS: return h - py;
    case CellOrientation_FW: return px;
    case CellOrientation_FE: return w - px;
    default: return py;
  }
}
#endif
