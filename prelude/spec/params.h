/* prelude/spec/params.h — the documented ranges of the placement parameters (C19), written from the doc
 * comments of coloquinte.hpp and the refusal messages, as predicates "the set is acceptable".
 * Comparisons are written as "not refused" so that NaN is treated as the checks treat it. */
#ifndef VERIF_SPEC_PARAMS_H
#define VERIF_SPEC_PARAMS_H
#define IN_RANGE(x, lo, hi) (!((x) < (lo)) && !((x) > (hi)))
#define RANGE_Penalty(p) ( !((p)->cutoffDistance < 1.0e-6) && IN_RANGE((p)->cutoffDistanceUpdateFactor, 0.8, 1.2) && IN_RANGE((p)->areaExponent, 0.49, 1.01) \
  && !((p)->initialValue <= 0.0f) && !((p)->updateFactor <= 1.0f) && !((p)->updateFactor >= 2.0f) && IN_RANGE((p)->targetBlending, 0.1f, 1.1f) )
#define RANGE_Continuous(p) ( IN_RANGE((p)->approximationDistance, 1.0e-6, 1.0e3) && IN_RANGE((p)->approximationDistanceUpdateFactor, 0.8, 1.2) \
  && (p)->maxNbConjugateGradientSteps > 0 && IN_RANGE((p)->conjugateGradientErrorTolerance, 1.0e-8, 1.0) )
#define RANGE_Rough(p) ( (p)->nbSteps >= 0 && IN_RANGE((p)->binSize, 1.0f, 25.0f) \
  && (p)->lineReoptSize >= 1 && (p)->diagReoptSize >= 1 && (p)->squareReoptSize >= 1 \
  && (p)->lineReoptOverlap >= 1 && (p)->diagReoptOverlap >= 1 && (p)->squareReoptOverlap >= 1 \
  && (p)->lineReoptSize <= 64 && (p)->diagReoptSize <= 64 && (p)->squareReoptSize <= 8 \
  && ((p)->lineReoptSize >= 2 || (p)->diagReoptSize >= 2 || (p)->squareReoptSize >= 2 || ((p)->unidimensionalTransport && (p)->costModel == LegalizationModel_L1)) \
  && ((p)->lineReoptSize <= 1 || (p)->lineReoptOverlap < (p)->lineReoptSize) \
  && ((p)->diagReoptSize <= 1 || (p)->diagReoptOverlap < (p)->diagReoptSize) \
  && ((p)->squareReoptSize <= 1 || (p)->squareReoptOverlap < (p)->squareReoptSize) \
  && IN_RANGE((p)->quadraticPenalty, 0.0, 1.0) && IN_RANGE((p)->targetBlending, -0.1, 0.9f) )
#define RANGE_GlobalOwn(p) ( (p)->maxNbSteps >= 0 && (p)->nbInitialSteps >= 0 && (p)->nbInitialSteps < (p)->maxNbSteps && (p)->nbStepsBeforeRoughLegalization >= 1 \
  && IN_RANGE((p)->gapTolerance, 0.0f, 1.0f) && !((p)->distanceTolerance < 0.0f) && IN_RANGE((p)->exportBlending, -0.5f, 1.5f) && IN_RANGE((p)->noise, 0.0, 2.0) \
  && !((p)->penaltyUpdateDistance <= 0.0f) && !((p)->penaltyUpdateBackoff < 1.0f) )
#define RANGE_Global(p) ( RANGE_Rough(&(p)->roughLegalization) && RANGE_Continuous(&(p)->continuousModel) && RANGE_Penalty(&(p)->penalty) && RANGE_GlobalOwn(p) )
#define RANGE_Legalization(p) ( (p)->costModel == LegalizationModel_L1 && IN_RANGE((p)->orderingWidth, -1.0, 2.0) && IN_RANGE((p)->orderingY, -0.2, 0.2) )
#define RANGE_Detailed(p) ( (p)->nbPasses >= 0 && (p)->localSearchNbNeighbours >= 0 && (p)->localSearchNbRows >= 0 && (p)->shiftNbRows > 0 \
  && (p)->shiftMaxNbCells >= 0 && (p)->reorderingNbRows > 0 && (p)->reorderingMaxNbCells >= 0 )
#define RANGE_Coloquinte(p) ( RANGE_Global(&(p)->global) && RANGE_Legalization(&(p)->legalization) && RANGE_Detailed(&(p)->detailed) )
#endif
