/* prelude/lower.h — trusted lowering of the C++ constructs admitted by the extraction
 * vocabulary (DESIGN.md 2.2).  Part of the trusted base. */
#ifndef VERIF_LOWER_H
#define VERIF_LOWER_H
#include <stdbool.h>
#include <stddef.h>
#include <stdlib.h>
#include <limits.h>
#include <float.h>
#include <math.h>
#include <iso646.h>

/* ---- exceptions (DESIGN.md 3.5): a throw sets the ghost flag and leaves the function */
extern int verif_exc;
#define VERIF_THROW do { verif_exc = 1; return VERIF_DUMMY; } while (0)
#define VERIF_DUMMY
/* after a call to a function that may throw: C++ propagation in a function without try */
#define VERIF_PROPAGATE do { if (verif_exc) return VERIF_DUMMY; } while (0)

#define VERIF_PROPAGATE_TO(label) do { if (verif_exc) goto label; } while (0)

/* ---- repo assertions and aborts are obligations (DESIGN.md 3.6) */
#undef assert
#define assert(e) __CPROVER_assert((e), "repo assert: " #e)
#define abort() do { __CPROVER_assert(0, "abort reachable"); __CPROVER_assume(0); } while (0)

/* ---- vacuity guard: must FAIL (i.e. be reachable) on every run */
#define REACH(tag) __CPROVER_assert(0, "reach:" tag)

/* ---- std:: helpers on scalars (arguments in the extracted text are side-effect free) */
#define std_min(a, b) ((a) < (b) ? (a) : (b))
#define std_max(a, b) ((a) < (b) ? (b) : (a))
#define std_abs(a) ((a) < 0 ? -(a) : (a))
#define std_round(a) round(a)
#define std_ceil(a) ceil(a)
#define std_floor(a) floor(a)
#define std_sqrt(a) sqrt(a)
#define std_isfinite(a) isfinite(a)
#define std_isnan(a) isnan(a)
#define std_clamp(v, lo, hi) ((v) < (lo) ? (lo) : ((hi) < (v) ? (hi) : (v)))
#define std_swap(a, b) do { __typeof__(a) verif_swap_tmp = (a); (a) = (b); (b) = verif_swap_tmp; } while (0)

/* std::pair lowered to a struct with the same member names */
typedef struct { int first; int second; } Pair_int_int;
typedef struct { bool first; long long second; } Pair_bool_longlong;
typedef struct { float first; int second; } Pair_float_int;
typedef struct { bool first; int second; } Pair_bool_int;

/* ghost code marker: may only assign ghost variables */
#define GHOST(stmt) stmt

#endif
