/* prelude/containers_abs.h — abstract (over-approximating) models of the std::vector operations that the
 * extraction vocabulary (rule 9) lowers to VEC_* macros.  Default model: "size + touched":
 * the element count is tracked exactly, contents of grown vectors are not modelled, and every modifying
 * operation sets the ghost flag verif_vec_touched (so "changes nothing" is checkable).  Units that need
 * contents define their own VEC_* macros before including this header.  Part of the trusted base. */
#ifndef VERIF_CONTAINERS_ABS_H
#define VERIF_CONTAINERS_ABS_H
extern int verif_vec_touched;
#ifndef VEC_TOUCH
#define VEC_TOUCH(v) (verif_vec_touched = 1)
#endif
#ifndef VEC_PUSH_BACK
#define VEC_PUSH_BACK(v, x) do { (void)(x); v##_size = v##_size + 1; VEC_TOUCH(v); } while (0)
#endif
#ifndef VEC_CLEAR
#define VEC_CLEAR(v) do { v##_size = 0; VEC_TOUCH(v); } while (0)
#endif
#ifndef VEC_APPEND
#define VEC_APPEND(v, w) do { v##_size = v##_size + w##_size; VEC_TOUCH(v); } while (0)
#endif
#ifndef VEC_RESIZE
#define VEC_RESIZE(v, n, ...) do { v##_size = (int)(n); VEC_TOUCH(v); } while (0)
#endif
/* whole-vector copy assignment v = w: modelled as sharing w's storage (valid while neither is modified afterwards) */
#ifndef VEC_COPY
#define VEC_COPY(v, w) do { v = w; v##_size = w##_size; VEC_TOUCH(v); } while (0)
#endif
#endif
