/* prelude/pq_abs.h — abstract (over-approximating) model of std::priority_queue<RowLegalizer::Bound>:
 * ghost element count, ghost sum of weights, cached top element, element range [lo, hi].  Every behaviour of
 * the real container is a behaviour of the model: top() is the maximum, so successive pops are non-increasing
 * in absolutePos; each element has weight >= 1 and lies in [lo, hi] (the queue element invariant, asserted on
 * every push).  A discharged obligation therefore holds for the real queue; a counterexample may be spurious. */
#ifndef VERIF_PQ_ABS_H
#define VERIF_PQ_ABS_H
typedef struct { int absolutePos; int weight; } Bound;
#define Bound(w, p) ((Bound){.absolutePos = (p), .weight = (w)})
typedef struct { long long total; int count; Bound top; int lo, hi; } PQ;
int nondet_int(void);
static inline bool PQ_empty(const PQ *q) { return q->count == 0; }
static inline void PQ_pick(PQ *q) { if (q->count > 0) { Bound b; b.weight = nondet_int(); b.absolutePos = nondet_int(); __CPROVER_assume(1 <= b.weight && b.weight <= q->total - (q->count - 1) && q->lo <= b.absolutePos && b.absolutePos <= q->hi); q->top = b; } }
static inline Bound PQ_top(const PQ *q) { __CPROVER_assert(q->count > 0, "repo assert: top() of an empty priority queue"); return q->top; }
static inline void PQ_pop(PQ *q) { __CPROVER_assert(q->count > 0, "repo assert: pop() of an empty priority queue"); int prev = q->top.absolutePos; q->total -= q->top.weight; q->count--; PQ_pick(q); __CPROVER_assume(q->count == 0 || q->top.absolutePos <= prev); }
static inline void PQ_push(PQ *q, Bound b) { __CPROVER_assert(b.weight >= 1 && q->lo <= b.absolutePos && b.absolutePos <= q->hi, "spec: queue element invariant (weight >= 1, position inside the segment)"); int prevtop = q->count > 0 ? q->top.absolutePos : b.absolutePos; q->total += b.weight; q->count++; PQ_pick(q); __CPROVER_assume(q->top.absolutePos >= prevtop && q->top.absolutePos >= b.absolutePos && (q->top.absolutePos == prevtop || q->top.absolutePos == b.absolutePos)); }
#define PQ_WF(q, lo_, hi_) ((q).count >= 0 && (q).total >= (q).count && (q).lo == (lo_) && (q).hi == (hi_) && \
   ((q).count == 0 || (1 <= (q).top.weight && (q).top.weight <= (q).total - ((q).count - 1) && (lo_) <= (q).top.absolutePos && (q).top.absolutePos <= (hi_))))
#endif
