#!/bin/bash
# like seed_table.sh, but against the scratch worktree recorded in meta.json (VERIF_REPO) instead of patching /repo
cd /verif
mkdir -p /var/tmp/seedtab
ids="$@"; [ -z "$ids" ] && ids=$(ls seeded)
for id in $ids; do
  p=$(python3 -c "import json;print(json.load(open('seeded/$id/meta.json'))['property'])")
  w=$(python3 -c "import json;j=json.load(open('seeded/$id/meta.json'));print(j.get('worktree', j.get('worktree_was','')))")
  [ -d "$w/src" ] || { echo "$id: worktree $w is gone"; continue; }
  s=$(date +%s)
  VERIF_REPO=$w bin/check $p --no-evidence > /var/tmp/seedtab/$id.log 2>&1; rc=$?
  v=$(grep -m1 "^VIOLATION" /var/tmp/seedtab/$id.log | sed 's/.*replay=[^ ]*\/\([^/ ]*\)\.txt/\1/')
  u=$(grep "^UNDECIDED" /var/tmp/seedtab/$id.log | sed 's/UNDECIDED property=[^ ]* //' | tr '\n' ';' | cut -c1-200)
  echo "$id rc=$rc $(( $(date +%s) - s ))s first=[$v] undecided=[$u]"
done
