#!/bin/bash
# run the registered quick check of a seeded change's property against /repo with the patch applied, then revert
# usage: seed_run.sh <seeded-dir> [extra bin/check args]
D=$1; shift
P=$(python3 -c "import json,sys; print(json.load(open('$D/meta.json'))['property'])")
git -C /repo apply $D/patch.diff || { echo "patch does not apply"; exit 2; }
( cd /verif && bin/check $P --no-evidence "$@" 2>&1 | grep "^VIOLATION\|^SUMMARY\|^UNDECIDED\|^KNOWN" | cut -c1-220 | head -12 )
git -C /repo checkout -- .
