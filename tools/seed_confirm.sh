#!/bin/bash
# confirm a seeded change in its scratch worktree: suite passes with it, demo fails with it and passes without
# usage: seed_confirm.sh <worktree> ; prints one line of results
set -u
W=$1; cd $W || exit 2
git diff -- src > /tmp/seed_patch_$$.diff
[ -s /tmp/seed_patch_$$.diff ] || { echo "$W: no source change"; exit 2; }
cmake --build _build > /dev/null 2>&1 || { echo "$W: build with change FAILED"; exit 1; }
T=$(ctest --test-dir _build -j8 2>&1 | grep "tests passed" | head -1)
g++ -std=c++17 -O1 -Isrc -I/usr/include/eigen3 demo.cpp -L_build -lcoloquinte -Wl,-rpath,$PWD/_build -o demo 2> /tmp/seed_cc_$$.log || { echo "$W: demo does not compile: $(head -3 /tmp/seed_cc_$$.log)"; exit 1; }
timeout 600 ./demo > /tmp/seed_with_$$.log 2>&1; RW=$?
git stash -q; cmake --build _build > /dev/null 2>&1
timeout 600 ./demo > /tmp/seed_without_$$.log 2>&1; RO=$?
git stash pop -q; cmake --build _build > /dev/null 2>&1
echo "$W: suite with change: [$T]  demo with change: exit $RW  demo without: exit $RO"
rm -f /tmp/seed_*_$$.*
