#!/usr/bin/env python3
"""regenerates MANIFEST.json from tools/claims.toml (level texts, notes, not_applicable reasons)"""
import json, tomllib, os
root = os.path.dirname(os.path.dirname(os.path.abspath(__file__)))
cl = tomllib.load(open(os.path.join(root, 'tools', 'claims.toml'), 'rb'))
props = [json.loads(l)['id'] for l in open(os.path.join(root, 'properties.jsonl'))]
checks = []
na = []
for p in props:
    c = cl.get(p, {})
    if c.get('claim'):
        checks.append({"property_id": p, "quick_cmd": "bin/check %s --tier quick" % p, "thorough_cmd": "bin/check %s --tier thorough" % p,
                       "evidence_file": "evidence/%s.json" % p, "replay_cmd_template": "bin/check %s --replay {path}" % p, "engine": "cvx",
                       "level_claimed": {"category": "proof", "text": c['text'], "design_ref": "DESIGN.md section 5, " + p},
                       "level_note": c['note'],
                       "technique": "contract-based deductive verification: CBMC code contracts (goto-instrument --dfcc, loop contracts) on function bodies extracted verbatim from /repo on every run"})
    else:
        na.append({"property_id": p, "reason": c.get('reason', 'check not built yet (work in progress)')})
m = {"version": 1, "setup_cmd": "python3 -m compileall -q cvx",
     "hooks": {"guard": "COLOQUINTE_VERIF", "enable": "no source hook is needed: contracts live in /verif/units and are attached to bodies extracted from /repo's working tree on every run (the generated C is compiled with -DCOLOQUINTE_VERIF); replay programs reach private state with '#define private public' in their own translation unit",
               "baseline_off_cmd": "cmake --build /repo/_build && ctest --test-dir /repo/_build -j8 --timeout 900", "source_commits": [], "add_only": True},
     "engines": [{"name": "cvx", "path": "cvx/", "serves_properties": [c['property_id'] for c in checks],
                  "kind_free_text": "verbatim extractor + contract/unit generator + CBMC/DFCC runner + obligation accounting + native sanitizer replay"}],
     "checks": checks, "not_applicable": na,
     "notes": "exit 0: all obligations of the property discharged; exit 1: VIOLATION lines; exit 2: undecided (timeout, extraction rule no longer fires, tool error) - never reported as a violation. Known findings: known_findings.json."}
json.dump(m, open(os.path.join(root, 'MANIFEST.json'), 'w'), indent=1)
print('claimed:', [c['property_id'] for c in checks])
