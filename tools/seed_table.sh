#!/bin/bash
# run the quick check of each seeded change's property with the change applied to /repo, then undo it
# usage: tools/seed_table.sh [seed-id ...]   (default: all); writes /var/tmp/seedtab/<id>.log and prints one line per seed
cd /verif
mkdir -p /var/tmp/seedtab
trap 'git -C /repo checkout -- . 2>/dev/null' EXIT
ids="$@"; [ -z "$ids" ] && ids=$(ls seeded)
for id in $ids; do
  p=$(python3 -c "import json;print(json.load(open('seeded/$id/meta.json'))['property'])")
  git -C /repo checkout -- . ; git -C /repo apply /verif/seeded/$id/patch.diff || { echo "$id: patch does not apply"; continue; }
  s=$(date +%s)
  bin/check $p --no-evidence > /var/tmp/seedtab/$id.log 2>&1; rc=$?
  git -C /repo checkout -- .
  v=$(grep -m1 "^VIOLATION" /var/tmp/seedtab/$id.log | sed 's/.*replay=[^ ]*\/\([^/ ]*\)\.txt/\1/')
  u=$(grep "^UNDECIDED" /var/tmp/seedtab/$id.log | sed 's/UNDECIDED property=[^ ]* //' | tr '\n' ';')
  echo "$id rc=$rc $(( $(date +%s) - s ))s first=[$v] undecided=[$u]"
done
