// history harness for Circuit::hpwl: the verifier's counterexample is a state of an abstract circuit,
// so this program searches small concrete circuits (API-level inputs) for one where hpwl() differs
// from the independent specification (sum over nets of the half-perimeter of the oriented pin locations).
#include <cstdio>
#include <random>
#include <climits>
#include "spec_cpp.h"
static long long spec_hpwl(const Circuit &c) {
  long long tot = 0;
  for (int n = 0; n < c.nbNets(); ++n) {
    if (c.nbPinsNet(n) == 0) continue;
    long long mnx = LLONG_MAX, mxx = LLONG_MIN, mny = LLONG_MAX, mxy = LLONG_MIN;
    for (int i = 0; i < c.nbPinsNet(n); ++i) {
      int cell = c.pinCell(n, i);
      int k = c.netLimits_[n] + i;
      long long px = (long long)c.cellX_[cell] + spec_pin_x(c.cellOrientation_[cell], c.cellWidth_[cell], c.cellHeight_[cell], c.pinXOffsets_[k], c.pinYOffsets_[k]);
      long long py = (long long)c.cellY_[cell] + spec_pin_y(c.cellOrientation_[cell], c.cellWidth_[cell], c.cellHeight_[cell], c.pinXOffsets_[k], c.pinYOffsets_[k]);
      mnx = std::min(mnx, px); mxx = std::max(mxx, px); mny = std::min(mny, py); mxy = std::max(mxy, py);
    }
    tot += (mxx - mnx) + (mxy - mny);
  }
  return tot;
}
int main() {
  std::mt19937 rng(12345);
  for (int iter = 0; iter < 20000; ++iter) {
    int nc = 1 + rng() % 4;
    Circuit c(nc);
    std::vector<int> w, h, x, y; std::vector<CellOrientation> o;
    for (int i = 0; i < nc; ++i) { w.push_back(rng() % 9); h.push_back(rng() % 9); x.push_back((int)(rng() % 41) - 20); y.push_back((int)(rng() % 41) - 20); o.push_back((CellOrientation)(rng() % 8)); }
    c.setCellWidth(w); c.setCellHeight(h); c.setCellX(x); c.setCellY(y); c.setCellOrientation(o);
    int nn = rng() % 4;
    for (int n = 0; n < nn; ++n) {
      int np = rng() % 4; std::vector<int> cells, ox, oy;
      for (int p = 0; p < np; ++p) { cells.push_back(rng() % nc); ox.push_back((int)(rng() % 13) - 3); oy.push_back((int)(rng() % 13) - 3); }
      c.addNet(cells, ox, oy);
    }
    if (c.hpwl() != spec_hpwl(c)) {
      printf("hpwl()=%lld spec=%lld on circuit: cells", c.hpwl(), spec_hpwl(c));
      for (int i = 0; i < nc; ++i) printf(" [%dx%d @(%d,%d) o=%d]", w[i], h[i], x[i], y[i], (int)o[i]);
      for (int n = 0; n < c.nbNets(); ++n) { printf(" net%d:", n); for (int i = 0; i < c.nbPinsNet(n); ++i) printf(" (c%d,%d,%d)", c.pinCell(n, i), c.pinXOffsets_[c.netLimits_[n] + i], c.pinYOffsets_[c.netLimits_[n] + i]); }
      printf("\n");
      return 1;
    }
  }
  printf("no difference found on 20000 small random circuits\n");
  return 0;
}
