// history harness for C01 / C11: legalization on small random circuits (split rows, obstructions, multi-row
// cells, polarities, dense and over-full designs): on normal return every movable cell sits on a row boundary,
// each row-high strip of it lies inside one free segment, no two movable cells overlap; trivial instances never
// fail; legalizing an already legal row-high design does not move any cell (ordering width in [0,1]).
#include <cstdio>
#include <random>
#include <stdexcept>
#include "spec_cpp.h"
static const char *illegal(const Circuit &c) {
  static char buf[256];
  auto rows = c.computeRows();
  int rh = c.rowHeight();
  for (int i = 0; i < c.nbCells(); ++i) {
    if (c.isFixed(i)) continue;
    Rectangle p = c.placement(i);
    if (c.placedHeight(i) % rh != 0) continue;
    for (int yy = p.minY; yy < p.maxY; yy += rh) {
      Rectangle strip(p.minX, p.maxX, yy, yy + rh);
      bool inside = false;
      for (const Row &r : rows) if (r.contains(strip) && r.minY == yy) inside = true;
      if (!inside) { snprintf(buf, sizeof buf, "cell %d: strip %d..%d x %d..%d is not inside a free row segment", i, strip.minX, strip.maxX, strip.minY, strip.maxY); return buf; }
    }
    if (c.orientation(i) == CellOrientation::INVALID) { snprintf(buf, sizeof buf, "cell %d has orientation INVALID", i); return buf; }
    for (int j = i + 1; j < c.nbCells(); ++j) if (!c.isFixed(j) && p.intersects(c.placement(j))) { snprintf(buf, sizeof buf, "cells %d and %d overlap", i, j); return buf; }
  }
  return nullptr;
}
int main() {
  std::mt19937 rng(31337);
  for (int iter = 0; iter < 400; ++iter) {
    int nc = 2 + rng() % 8; bool trivial = iter % 4 == 1; bool multi = !trivial && iter % 3 == 0;
    Circuit c(nc);
    std::vector<int> w, h, x, y; std::vector<bool> fx, ob; std::vector<CellOrientation> o; std::vector<CellRowPolarity> pol;
    long long totw = 0; int maxw = 0;
    for (int i = 0; i < nc; ++i) { bool f = !trivial && rng() % 5 == 0; fx.push_back(f); ob.push_back(rng() % 3 != 0);
      int ww = 1 + rng() % (trivial ? 4 : 12), hh = 10 * (multi && !f && rng() % 3 == 0 ? 2 + rng() % 2 : 1); if (f) hh = 1 + rng() % 25;
      w.push_back(ww); h.push_back(hh); x.push_back((int)(rng() % 90) - 15); y.push_back((int)(rng() % 60) - 10);
      o.push_back(CellOrientation::N); pol.push_back(!f && !trivial && rng() % 3 == 0 ? (hh == 10 ? (rng() % 2 ? CellRowPolarity::SAME : CellRowPolarity::OPPOSITE) : CellRowPolarity::ANY) : CellRowPolarity::ANY);
      if (!f) { totw += ww; maxw = std::max(maxw, ww); } }
    fx[0] = false;
    c.setCellWidth(w); c.setCellHeight(h); c.setCellX(x); c.setCellY(y); c.setCellIsFixed(fx); c.setCellIsObstruction(ob); c.setCellOrientation(o); c.setCellRowPolarity(pol);
    std::vector<Row> rows; for (int r = 0; r < 4; ++r) { if (rng() % 4 == 0 && !trivial) { rows.emplace_back(0, 25, 10 * r, 10 * r + 10, r % 2 ? CellOrientation::FS : CellOrientation::N); rows.emplace_back(35, 60, 10 * r, 10 * r + 10, r % 2 ? CellOrientation::FS : CellOrientation::N); } else rows.emplace_back(0, 60, 10 * r, 10 * r + 10, r % 2 ? CellOrientation::FS : CellOrientation::N); }
    c.setRows(rows);
    ColoquinteParameters p(1 + rng() % 9);
    p.legalization.orderingWidth = (rng() % 11) / 10.0;
    bool threw = false;
    try { c.legalize(p); } catch (std::exception &e) { threw = true; }
    if (!threw) { if (const char *m = illegal(c)) { printf("instance %d: legalize returned normally but %s\n", iter, m); return 1; } }
    if (threw && trivial) {
      long long freew = 0; int nseg = 0; for (const Row &r : c.computeRows()) { freew += r.width(); ++nseg; }
      if (totw <= freew - (long long)nseg * maxw) { printf("instance %d: legalize failed although success is trivial (total width %lld, free %lld, %d segments, max width %d)\n", iter, totw, freew, nseg, maxw); return 1; }
    }
    if (!threw && !multi) {
      bool rowHigh = true; for (int i = 0; i < nc; ++i) if (!fx[i] && h[i] != 10) rowHigh = false;
      if (rowHigh) { auto before = c.solution(); try { c.legalize(p); } catch (std::exception &) { printf("instance %d: second legalization failed\n", iter); return 1; }
        auto after = c.solution();
        for (int i = 0; i < nc; ++i) if (!fx[i] && (before[i].position.x != after[i].position.x || before[i].position.y != after[i].position.y)) { printf("instance %d: legalizing a legal placement moved cell %d from (%d,%d) to (%d,%d)\n", iter, i, before[i].position.x, before[i].position.y, after[i].position.x, after[i].position.y); return 1; } }
    }
  }
  printf("400 instances: legal or refused, trivial instances accepted, legal single-row placements not moved\n");
  return 0;
}
