// history harness for C02 / C04 / C05: legalize + placeDetailed on small random circuits (obstructions,
// polarities, non-default parameters with reordering), checking at every Detailed callback and on return that
// the placement is legal, that polarised cells have the prescribed orientation (never INVALID), and — for
// circuits without row polarities (orientation-preserving moves) — that the wirelength never increases.
#include <cstdio>
#include <random>
#include <stdexcept>
#include "spec_cpp.h"
static const char *illegal(const Circuit &c) {
  static char buf[256];
  auto rows = c.computeRows();
  int rh = c.rowHeight();
  for (int i = 0; i < c.nbCells(); ++i) {
    if (c.isFixed(i)) continue;
    Rectangle p = c.placement(i);
    if (c.placedHeight(i) == rh) {
      bool inside = false;
      for (const Row &r : rows) if (r.contains(p)) {
        inside = true;
        CellOrientation want = spec_orientation_in_row(c.cellRowPolarity_[i], r.orientation);
        if (want == CellOrientation::INVALID) { snprintf(buf, sizeof buf, "cell %d sits on a row its polarity forbids", i); return buf; }
        if (want != CellOrientation::UNKNOWN && c.orientation(i) != want) { snprintf(buf, sizeof buf, "cell %d has orientation %d, its polarity prescribes %d", i, (int)c.orientation(i), (int)want); return buf; }
      }
      if (!inside) { snprintf(buf, sizeof buf, "cell %d (%d..%d x %d..%d) is not inside a free row segment", i, p.minX, p.maxX, p.minY, p.maxY); return buf; }
    }
    if (c.orientation(i) == CellOrientation::INVALID) { snprintf(buf, sizeof buf, "cell %d has orientation INVALID", i); return buf; }
    for (int j = i + 1; j < c.nbCells(); ++j) if (!c.isFixed(j) && p.intersects(c.placement(j))) { snprintf(buf, sizeof buf, "cells %d and %d overlap", i, j); return buf; }
  }
  return nullptr;
}
int main() {
  std::mt19937 rng(2024);
  for (int iter = 0; iter < 150; ++iter) {
    int nc = 3 + rng() % 6; bool polar = iter % 2;
    Circuit c(nc);
    std::vector<int> w, h, x, y; std::vector<bool> fx, ob; std::vector<CellOrientation> o; std::vector<CellRowPolarity> pol;
    for (int i = 0; i < nc; ++i) { bool f = rng() % 5 == 0; fx.push_back(f); ob.push_back(true); w.push_back(1 + rng() % 5); h.push_back(10); x.push_back(rng() % 50); y.push_back(rng() % 40);
      o.push_back(CellOrientation::N); pol.push_back(polar && !f ? (CellRowPolarity)(rng() % 5) : CellRowPolarity::ANY); }
    fx[0] = false;
    c.setCellWidth(w); c.setCellHeight(h); c.setCellX(x); c.setCellY(y); c.setCellIsFixed(fx); c.setCellIsObstruction(ob); c.setCellOrientation(o); c.setCellRowPolarity(pol);
    c.setupRows(Rectangle(0, 60, 0, 40), 10);
    for (int n = 0; n < 4; ++n) { std::vector<int> cells, ox, oy; for (int p = 0; p < 2 + (int)(rng() % 2); ++p) { cells.push_back(rng() % nc); ox.push_back(rng() % 3); oy.push_back(rng() % 9); } c.addNet(cells, ox, oy); }
    ColoquinteParameters p(1 + rng() % 9);
    if (rng() % 2) { p.detailed.reorderingMaxNbCells = 3; p.detailed.reorderingNbRows = 2; p.detailed.shiftNbRows = 5; p.detailed.localSearchNbNeighbours = 8; }
    try { c.legalize(p); } catch (std::exception &) { continue; }
    if (const char *m = illegal(c)) { printf("instance %d: after legalize: %s\n", iter, m); return 1; }
    long long last = c.hpwl(); int bad = 0; int idx = 0;
    PlacementCallback cb = [&](PlacementStep) {
      ++idx;
      if (idx == 1) { last = c.hpwl(); return; }   // first callback belongs to the legalization inside placeDetailed
      if (const char *m = illegal(c)) { printf("instance %d: at Detailed callback %d: %s\n", iter, idx, m); bad = 1; }
      if (!polar && c.hpwl() > last) { printf("instance %d: wirelength rose from %lld to %lld at callback %d\n", iter, last, c.hpwl(), idx); bad = 1; }
      last = c.hpwl();
    };
    long long legalWl = c.hpwl();
    try { c.placeDetailed(p, cb); } catch (std::exception &e) { printf("instance %d: placeDetailed failed on a circuit that legalization accepts: %s\n", iter, e.what()); return 1; }
    if (bad) return 1;
    if (const char *m = illegal(c)) { printf("instance %d: on return: %s\n", iter, m); return 1; }
    if (!polar && c.hpwl() > legalWl) { printf("instance %d: returned wirelength %lld exceeds the legalized %lld\n", iter, c.hpwl(), legalWl); return 1; }
  }
  printf("150 instances: every exposed placement legal, orientations as prescribed, wirelength non-increasing\n");
  return 0;
}
