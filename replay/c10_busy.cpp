// history harness for the busy protocol (C10): throws from the callback at every callback index of
// legalize / placeDetailed / placeGlobal on a small circuit, also tries rejected parameters, and then
// checks that structural setters are accepted again; inside the callback they must be refused.
#include <cstdio>
#include <stdexcept>
#include "spec_cpp.h"
static Circuit make() {
  Circuit c(3);
  c.setCellWidth({4, 3, 5}); c.setCellHeight({10, 10, 10});
  c.setCellX({1, 2, 30}); c.setCellY({3, 2, 14});
  c.setCellOrientation({CellOrientation::N, CellOrientation::N, CellOrientation::N});
  c.setupRows(Rectangle(0, 60, 0, 40), 10);
  c.addNet({0, 1}, {0, 1}, {0, 0}); c.addNet({1, 2}, {0, 0}, {1, 2});
  return c;
}
static int accepted_again(Circuit &c, const char *what) {
  try { c.setRows(c.rows()); c.setCellIsFixed(c.cellIsFixed()); c.addNet({0}, {0}, {0}); }
  catch (std::exception &e) { printf("%s: modification refused after the call ended: %s\n", what, e.what()); return 1; }
  try { c.check(); } catch (std::exception &e) { printf("%s: circuit inconsistent: %s\n", what, e.what()); return 1; }
  return 0;
}
int main() {
  int bad = 0;
  for (int stage = 0; stage < 3; ++stage) {
   for (int kind = 0; kind < 2; ++kind) {   // kind 1: the callback throws an object that is not derived from std::exception
    for (int throwAt = 0; throwAt < 40; ++throwAt) {
      Circuit c = make();
      int idx = 0; bool refused_inside = true; bool threw = false;
      PlacementCallback cb = [&](PlacementStep) {
        try { c.setRows(c.rows()); refused_inside = false; } catch (std::exception &) {}
        if (idx++ == throwAt) { if (kind == 0) throw std::runtime_error("callback failure"); else throw 42; }
      };
      ColoquinteParameters p(1); p.global.maxNbSteps = 3;
      try {
        if (stage == 0) c.legalize(p, cb); else if (stage == 1) c.placeDetailed(p, cb); else c.placeGlobal(p, cb);
      } catch (std::exception &e) { threw = true; } catch (...) { threw = true; }
      if (!refused_inside) { printf("stage %d: setRows accepted while the call was in progress\n", stage); bad = 1; }
      char what[64]; snprintf(what, sizeof what, "stage %d, callback %d throws (%s)", stage, throwAt, threw ? "thrown" : "not reached");
      bad |= accepted_again(c, what);
      if (!threw) break;
    }
   }
    // rejected parameters
    Circuit c = make(); ColoquinteParameters p(1); p.detailed.nbPasses = -1; p.global.maxNbSteps = -5; p.legalization.orderingWidth = 1e30;
    auto sol = c.solution();
    try { if (stage == 0) c.legalize(p); else if (stage == 1) c.placeDetailed(p); else c.placeGlobal(p); } catch (std::exception &) {}
    bad |= accepted_again(c, "rejected parameters");
  }
  // a legalization that fails (infeasible: cells wider than the rows) leaves the placement exactly as it was
  {
    Circuit c(2);
    c.setCellWidth({50, 50}); c.setCellHeight({10, 10}); c.setCellX({3, 7}); c.setCellY({1, 2});
    c.setCellOrientation({CellOrientation::N, CellOrientation::FN});
    c.setupRows(Rectangle(0, 60, 0, 10), 10);
    auto before = c.solution(); bool threw = false;
    try { c.legalize(ColoquinteParameters(2)); } catch (std::exception &) { threw = true; }
    auto after = c.solution();
    if (!threw) { printf("infeasible legalization did not fail\n"); bad = 1; }
    for (size_t i = 0; i < before.size(); ++i)
      if (before[i].position.x != after[i].position.x || before[i].position.y != after[i].position.y || before[i].orientation != after[i].orientation) {
        printf("failed legalization moved cell %zu: (%d,%d) -> (%d,%d)\n", i, before[i].position.x, before[i].position.y, after[i].position.x, after[i].position.y); bad = 1; }
    bad |= accepted_again(c, "failed legalization");
  }
  return bad;
}
