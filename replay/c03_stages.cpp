// history harness for C03: runs the three stages (also with a throwing callback) on small random circuits
// with fixed cells and checks that nothing but position/orientation of movable cells changed.
#include <cstdio>
#include <random>
#include <stdexcept>
#include "spec_cpp.h"
struct Snap { std::vector<int> w, h, x, y, lim, pc, px, py; std::vector<bool> fx, ob; std::vector<CellRowPolarity> pol; std::vector<CellOrientation> o; std::vector<float> nw; std::vector<Row> rows; };
static Snap snap(const Circuit &c) { return Snap{c.cellWidth_, c.cellHeight_, c.cellX_, c.cellY_, c.netLimits_, c.pinCells_, c.pinXOffsets_, c.pinYOffsets_, c.cellIsFixed_, c.cellIsObstruction_, c.cellRowPolarity_, c.cellOrientation_, c.netWeights_, c.rows_}; }
static int cmp(const Snap &a, const Snap &b, bool globalStage, const char *what) {
  int bad = 0;
  if (a.w != b.w || a.h != b.h) { printf("%s: cell sizes changed\n", what); bad = 1; }
  if (a.fx != b.fx || a.ob != b.ob || a.pol != b.pol) { printf("%s: flags or polarities changed\n", what); bad = 1; }
  if (a.lim != b.lim || a.pc != b.pc || a.px != b.px || a.py != b.py || a.nw != b.nw) { printf("%s: nets changed\n", what); bad = 1; }
  if (a.rows.size() != b.rows.size()) { printf("%s: rows changed\n", what); bad = 1; }
  for (size_t i = 0; i < a.rows.size() && i < b.rows.size(); ++i) if (a.rows[i].minX != b.rows[i].minX || a.rows[i].maxX != b.rows[i].maxX || a.rows[i].minY != b.rows[i].minY || a.rows[i].maxY != b.rows[i].maxY || a.rows[i].orientation != b.rows[i].orientation) { printf("%s: row %zu changed\n", what, i); bad = 1; }
  for (size_t i = 0; i < a.x.size(); ++i) {
    if (a.fx[i] && (a.x[i] != b.x[i] || a.y[i] != b.y[i] || a.o[i] != b.o[i])) { printf("%s: fixed cell %zu moved (%d,%d,o%d) -> (%d,%d,o%d)\n", what, i, a.x[i], a.y[i], (int)a.o[i], b.x[i], b.y[i], (int)b.o[i]); bad = 1; }
    if (globalStage && a.o[i] != b.o[i]) { printf("%s: global placement changed the orientation of cell %zu\n", what, i); bad = 1; }
  }
  return bad;
}
int main() {
  std::mt19937 rng(4242);
  for (int iter = 0; iter < 60; ++iter) {
    int nc = 3 + rng() % 5;
    Circuit c(nc);
    std::vector<int> w, h, x, y; std::vector<bool> fx, ob; std::vector<CellOrientation> o;
    for (int i = 0; i < nc; ++i) { bool f = rng() % 3 == 0; fx.push_back(f); ob.push_back(rng() % 2); w.push_back(1 + rng() % 6); h.push_back(f ? (int)(rng() % 14) : 10); x.push_back(rng() % 80); y.push_back(rng() % 40); o.push_back(f ? (CellOrientation)(rng() % 8) : CellOrientation::N); }
    bool anyMovable = false; for (bool f : fx) anyMovable |= !f; if (!anyMovable) fx[0] = false, h[0] = 10;
    c.setCellWidth(w); c.setCellHeight(h); c.setCellX(x); c.setCellY(y); c.setCellIsFixed(fx); c.setCellIsObstruction(ob); c.setCellOrientation(o);
    c.setupRows(Rectangle(0, 100, 0, 50), 10);
    for (int n = 0; n < 3; ++n) { std::vector<int> cells, ox, oy; for (int p = 0; p < 2 + (int)(rng() % 2); ++p) { cells.push_back(rng() % nc); ox.push_back(rng() % 3); oy.push_back(rng() % 3); } c.addNet(cells, ox, oy, 0.5f + (rng() % 4)); }
    ColoquinteParameters p(1); p.global.maxNbSteps = 4;
    int throwAt = (int)(rng() % 6) - 2;
    for (int stage = 0; stage < 3; ++stage) {
      Snap before = snap(c); int idx = 0;
      PlacementCallback cb = [&](PlacementStep) { if (idx++ == throwAt) throw std::runtime_error("cb"); };
      try { if (stage == 0) c.placeGlobal(p, cb); else if (stage == 1) c.legalize(p, cb); else c.placeDetailed(p, cb); } catch (std::exception &) {}
      char what[64]; snprintf(what, sizeof what, "instance %d stage %d", iter, stage);
      if (cmp(before, snap(c), stage == 0, what)) return 1;
    }
  }
  printf("only movable cells moved on 60 instances x 3 stages\n");
  return 0;
}
