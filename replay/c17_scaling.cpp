// history harness for C17: fractional net weights are stored exactly, and scaling every weight and
// penalty strength by 2^k leaves the continuous solution bitwise unchanged (star and bound-to-bound models).
#include <cstdio>
#include <cstring>
#include <random>
#include "spec_cpp.h"
#include "place_global/net_model.hpp"
static bool same(const std::vector<float> &a, const std::vector<float> &b) { return a.size() == b.size() && memcmp(a.data(), b.data(), a.size() * sizeof(float)) == 0; }
int main() {
  std::mt19937 rng(99);
  { NetModel m(2); m.addNet({0, 1}, {0.0f, 0.0f}, 0.5f); if (m.netWeight(0) != 0.5f) { printf("addNet(weight 0.5) stored %g\n", m.netWeight(0)); return 1; } }
  for (int iter = 0; iter < 300; ++iter) {
    int nc = 2 + rng() % 4;
    for (float s : {0.25f, 2.0f, 8.0f}) {
      NetModel a(nc), b(nc);
      std::mt19937 r2(iter);
      int nn = 1 + r2() % 4;
      for (int n = 0; n < nn; ++n) {
        int np = 2 + r2() % 3; std::vector<int> cells; std::vector<float> offs;
        for (int p = 0; p < np; ++p) { cells.push_back((int)(r2() % (nc + 1)) - 1); offs.push_back((float)(r2() % 17) - 4.0f); }
        float w = 0.125f * (1 + r2() % 24);
        a.addNet(cells, offs, w); b.addNet(cells, offs, w * s);
      }
      std::vector<float> pl(nc), tgt(nc), pen(nc), pens(nc);
      for (int i = 0; i < nc; ++i) { pl[i] = (float)(r2() % 50); tgt[i] = (float)(r2() % 50); pen[i] = 0.125f * (1 + r2() % 16); pens[i] = pen[i] * s; }
      NetModel::Parameters p;
      if (!same(a.solveStar(p), b.solveStar(p))) { printf("solveStar differs after scaling all weights by %g (instance seed %d)\n", s, iter); return 1; }
      if (!same(a.solveB2B(pl, tgt, pen, p), b.solveB2B(pl, tgt, pens, p))) { printf("solveB2B with penalty differs after scaling weights and strengths by %g (instance seed %d)\n", s, iter); return 1; }
    }
  }
  printf("weights stored exactly; solutions bitwise equal under power-of-two scaling on 300 instances\n");
  return 0;
}
