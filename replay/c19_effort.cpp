// native replay: construct the parameters for CBMC's effort under ASan/UBSan
#include <cstdio>
#include <stdexcept>
#include "coloquinte.hpp"
using namespace coloquinte;
int main() {
  int effort = IN_effort;
  bool threw = false;
  try {
    ColoquinteParameters p(effort, IN_seed);
    p.check();
  } catch (std::exception &e) { threw = true; }
  bool valid = effort >= 1 && effort <= 9;
  if (valid == threw) { printf("effort %d: %s\n", effort, threw ? "refused although it is in 1..9 (or its parameters fail check())" : "accepted although outside 1..9"); return 1; }
  printf("effort %d: %s\n", effort, threw ? "refused" : "accepted");
  return 0;
}
