// native replay: one cell (w x h, orientation o), one net with one pin at (px, py)
#include <cstdio>
#include "spec_cpp.h"
int main() {
  int w = IN_g_w, h = IN_g_h, px = IN_g_px, py = IN_g_py; CellOrientation o = (CellOrientation)(IN_g_o);
  Circuit c(1);
  c.setCellWidth({w}); c.setCellHeight({h}); c.setCellOrientation({o}); c.setCellX({0}); c.setCellY({0});
  c.addNet({0}, {px}, {py});
  int bad = 0;
  if (c.placedWidth(0) != spec_placed_w(o, w, h)) { printf("placedWidth=%d spec=%d\n", c.placedWidth(0), spec_placed_w(o, w, h)); bad = 1; }
  if (c.placedHeight(0) != spec_placed_h(o, w, h)) { printf("placedHeight=%d spec=%d\n", c.placedHeight(0), spec_placed_h(o, w, h)); bad = 1; }
  if (VALID_ORIENT8(o)) {
    if (c.pinXOffset(0, 0) != spec_pin_x(o, w, h, px, py)) { printf("o=%d w=%d h=%d pin(%d,%d): pinXOffset=%d spec=%d\n", (int)o, w, h, px, py, c.pinXOffset(0, 0), spec_pin_x(o, w, h, px, py)); bad = 1; }
    if (c.pinYOffset(0, 0) != spec_pin_y(o, w, h, px, py)) { printf("o=%d w=%d h=%d pin(%d,%d): pinYOffset=%d spec=%d\n", (int)o, w, h, px, py, c.pinYOffset(0, 0), spec_pin_y(o, w, h, px, py)); bad = 1; }
  }
  return bad;
}
