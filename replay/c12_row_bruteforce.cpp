// history harness for RowLegalizer (C12): exhaustive over all instances within the property's small bounds
// (segment length <= 7, widths 1..3, up to 4 cells, targets in [-3, len+3]): insertion order kept, no overlap,
// inside the segment, minimum total weighted displacement (brute force), prediction == performed cost,
// reported costs sum exactly to the cost of the final placement.
#include <cstdio>
#include <climits>
#include <cstdlib>
#include <vector>
#include "place_detailed/row_legalizer.hpp"
using namespace coloquinte;
static long long best;
static void rec(int e, const std::vector<int> &w, const std::vector<int> &t, size_t i, int pos, long long cost) {
  if (cost >= best) return;
  if (i == w.size()) { best = cost; return; }
  int rem = 0; for (size_t k = i; k < w.size(); ++k) rem += w[k];
  for (int x = pos; x + rem <= e; ++x) rec(e, w, t, i + 1, x + w[i], cost + (long long)w[i] * std::abs(x - t[i]));
}
int main() {
  long long tot = 0;
  for (int L = 1; L <= 7; ++L) for (int n = 1; n <= 4; ++n) {
    std::vector<int> w(n), t(n);
    int W = 3, T = L + 7; long long combos = 1; for (int i = 0; i < n; ++i) combos *= W * T;
    for (long long c = 0; c < combos; ++c) {
      long long r = c; int sum = 0;
      for (int i = 0; i < n; ++i) { w[i] = 1 + r % W; r /= W; t[i] = -3 + r % T; r /= T; sum += w[i]; }
      if (sum > L) continue;
      RowLegalizer leg(0, L);
      long long total = 0; bool mism = false;
      for (int i = 0; i < n; ++i) { long long p = leg.getCost(w[i], t[i]); long long q = leg.push(w[i], t[i]); if (p != q) mism = true; total += q; }
      auto pl = leg.getPlacement();
      bool legal = (int)pl.size() == n;
      long long real = 0;
      for (int i = 0; legal && i < n; ++i) { real += (long long)w[i] * std::abs(pl[i] - t[i]); if (pl[i] < 0 || pl[i] + w[i] > L) legal = false; if (i + 1 < n && pl[i] + w[i] > pl[i + 1]) legal = false; }
      best = LLONG_MAX; rec(L, w, t, 0, 0, 0);
      ++tot;
      if (!legal || mism || total != real || real != best) {
        printf("segment [0,%d], insertions:", L); for (int i = 0; i < n; ++i) printf(" (w%d,t%d)->%d", w[i], t[i], legal ? pl[i] : -999);
        printf("  legal=%d predicted==performed=%d sum of reported costs=%lld cost of placement=%lld optimum=%lld\n", legal, !mism, total, real, best);
        return 1;
      }
    }
  }
  printf("%lld instances: order kept, legal, optimal, costs exact\n", tot);
  return 0;
}
