// native replay for the orientation tables: evaluates the real functions on CBMC's input
#include <cstdio>
#include "spec_cpp.h"
#ifndef IN_p
#define IN_p 0
#endif
int main() {
  CellOrientation o = (CellOrientation)(IN_o);
  CellRowPolarity p = (CellRowPolarity)(IN_p);
  int bad = 0;
  if (oppositeRowOrientation(o) != spec_opposite(o)) { printf("oppositeRowOrientation(%d) = %d, spec %d\n", (int)o, (int)oppositeRowOrientation(o), (int)spec_opposite(o)); bad = 1; }
  if (isTurn(o) != spec_is_turn(o)) { printf("isTurn(%d) = %d, spec %d\n", (int)o, (int)isTurn(o), (int)spec_is_turn(o)); bad = 1; }
  if (VALID_POLARITY(p) && cellOrientationInRow(p, o) != spec_orientation_in_row(p, o)) {
    printf("cellOrientationInRow(%d, %d) = %d, spec %d\n", (int)p, (int)o, (int)cellOrientationInRow(p, o), (int)spec_orientation_in_row(p, o)); bad = 1; }
  return bad;
}
