// maps the C names used by prelude/spec/*.h onto the real C++ enums so that the same
// specification text is evaluated natively in replay programs
#pragma once
#include "coloquinte.hpp"
using namespace coloquinte;
#define CellOrientation_N CellOrientation::N
#define CellOrientation_S CellOrientation::S
#define CellOrientation_W CellOrientation::W
#define CellOrientation_E CellOrientation::E
#define CellOrientation_FN CellOrientation::FN
#define CellOrientation_FS CellOrientation::FS
#define CellOrientation_FW CellOrientation::FW
#define CellOrientation_FE CellOrientation::FE
#define CellOrientation_INVALID CellOrientation::INVALID
#define CellOrientation_UNKNOWN CellOrientation::UNKNOWN
#define CellRowPolarity_ANY CellRowPolarity::ANY
#define CellRowPolarity_SAME CellRowPolarity::SAME
#define CellRowPolarity_OPPOSITE CellRowPolarity::OPPOSITE
#define CellRowPolarity_NW CellRowPolarity::NW
#define CellRowPolarity_SE CellRowPolarity::SE
#include "../prelude/spec/orient.h"
#include <cstring>
static inline float FBITS32(unsigned u) { float f; memcpy(&f, &u, 4); return f; }
static inline double FBITS64(unsigned long long u) { double f; memcpy(&f, &u, 8); return f; }
