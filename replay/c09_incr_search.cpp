// history harness for IncrNetModel: searches small concrete circuits and update sequences (API-level
// inputs) for one where the incrementally maintained value differs from the from-scratch HPWL.
#include <cstdio>
#include <random>
#include "spec_cpp.h"
#include "place_detailed/incr_net_model.hpp"
int main() {
  std::mt19937 rng(777);
  for (int iter = 0; iter < 4000; ++iter) {
    int nc = 1 + rng() % 4;
    Circuit c(nc);
    std::vector<int> w, h, x, y; std::vector<CellOrientation> o;
    for (int i = 0; i < nc; ++i) { w.push_back(rng() % 9); h.push_back(rng() % 9); x.push_back((int)(rng() % 41) - 20); y.push_back((int)(rng() % 41) - 20); o.push_back((CellOrientation)(rng() % 8)); }
    c.setCellWidth(w); c.setCellHeight(h); c.setCellX(x); c.setCellY(y); c.setCellOrientation(o);
    int nn = rng() % 4;
    for (int n = 0; n < nn; ++n) {
      int np = rng() % 4; std::vector<int> cells, ox, oy;
      for (int p = 0; p < np; ++p) { cells.push_back(rng() % nc); ox.push_back((int)(rng() % 13) - 3); oy.push_back((int)(rng() % 13) - 3); }
      c.addNet(cells, ox, oy);
    }
    IncrNetModel mx = IncrNetModel::xTopology(c), my = IncrNetModel::yTopology(c);
    for (int step = 0; step <= 4; ++step) {
      if (mx.value() + my.value() != c.hpwl()) {
        printf("after %d updates: incremental value %lld + %lld != hpwl() %lld; cells", step, mx.value(), my.value(), c.hpwl());
        for (int i = 0; i < nc; ++i) printf(" [%dx%d @(%d,%d) o=%d]", w[i], h[i], c.x(i), c.y(i), (int)o[i]);
        for (int n = 0; n < c.nbNets(); ++n) { printf(" net%d:", n); for (int i = 0; i < c.nbPinsNet(n); ++i) printf(" (c%d,%d,%d)", c.pinCell(n, i), c.pinXOffsets_[c.netLimits_[n] + i], c.pinYOffsets_[c.netLimits_[n] + i]); }
        printf("\n");
        return 1;
      }
      try { mx.check(); my.check(); } catch (std::exception &e) { printf("IncrNetModel::check failed after %d updates: %s\n", step, e.what()); return 1; }
      int cell = rng() % nc, nx = (int)(rng() % 41) - 20, ny = (int)(rng() % 41) - 20;
      mx.updateCellPos(cell, nx); my.updateCellPos(cell, ny);
      x[cell] = nx; y[cell] = ny; c.setCellX(x); c.setCellY(y);
    }
  }
  printf("no difference found on 4000 small random circuits x 4 updates\n");
  return 0;
}
