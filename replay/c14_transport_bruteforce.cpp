// history harness for the 1-D transportation solver (C14): all instances within small bounds (<= 3 sources,
// <= 3 sinks, positions 0..3 unsorted with duplicates, supplies 0..2, demands 0..3, total supply <= total demand):
// solve() returns a valid plan of minimum cost (brute force); assign() gives every source one sink of positive
// demand; an unsplit source goes to the plan's sink (or one at the same position); run under ASan/UBSan.
#include <cstdio>
#include <climits>
#include <cstdlib>
#include <vector>
#include <tuple>
#include <stdexcept>
#include "place_global/transportation_1d.hpp"
static long long bestCost;
static void rec(const std::vector<long long> &u, const std::vector<long long> &v, const std::vector<long long> &s, std::vector<long long> &cap, size_t i, long long left, long long cost) {
  if (cost >= bestCost) return;
  if (i == s.size()) { bestCost = cost; return; }
  if (left == 0) { rec(u, v, s, cap, i + 1, i + 1 < s.size() ? s[i + 1] : 0, cost); return; }
  for (size_t j = 0; j < v.size(); ++j) if (cap[j] > 0) { cap[j]--; rec(u, v, s, cap, i, left - 1, cost + std::llabs(u[i] - v[j])); cap[j]++; }
}
int main() {
  long long tot = 0;
  for (int ns = 1; ns <= 3; ++ns) for (int nk = 1; nk <= 3; ++nk) {
    int dims = ns * 2 + nk * 2; std::vector<int> radix;
    for (int i = 0; i < ns; ++i) radix.push_back(4); for (int j = 0; j < nk; ++j) radix.push_back(4);
    for (int i = 0; i < ns; ++i) radix.push_back(3); for (int j = 0; j < nk; ++j) radix.push_back(4);
    std::vector<int> dig(dims, 0);
    while (true) {
      std::vector<long long> u(dig.begin(), dig.begin() + ns), v(dig.begin() + ns, dig.begin() + ns + nk), s(dig.begin() + ns + nk, dig.begin() + 2 * ns + nk), d(dig.begin() + 2 * ns + nk, dig.end());
      long long ts = 0, td = 0; for (auto x : s) ts += x; for (auto x : d) td += x;
      if (ts <= td && ts > 0) {
        ++tot;
        Transportation1d pb(u, v, s, d);
        Transportation1d::Solution sol;
        try { sol = pb.solve(); } catch (std::exception &e) { printf("solve() threw '%s' on", e.what()); goto report; }
        { std::vector<long long> us(ns, 0), ud(nk, 0); long long cost = 0; bool ok = true;
          for (auto [i, j, a] : sol) { if (i < 0 || i >= ns || j < 0 || j >= nk || a <= 0) { ok = false; break; } us[i] += a; ud[j] += a; cost += a * std::llabs(u[i] - v[j]); }
          for (int i = 0; ok && i < ns; ++i) if (us[i] != s[i]) ok = false; for (int j = 0; ok && j < nk; ++j) if (ud[j] > d[j]) ok = false;
          if (!ok) { printf("solve() returned an invalid plan on"); goto report; }
          bestCost = LLONG_MAX; std::vector<long long> cap = d; rec(u, v, s, cap, 0, s[0], 0);
          if (cost != bestCost) { printf("solve() cost %lld, optimum %lld on", cost, bestCost); goto report; }
          std::vector<int> as = Transportation1d(u, v, s, d).assign();
          if ((int)as.size() != ns) { printf("assign() returned %zu entries for %d sources on", as.size(), ns); goto report; }
          for (int i = 0; i < ns; ++i) {
            if (as[i] < 0 || as[i] >= nk || d[as[i]] <= 0) { printf("assign() gives source %d sink %d (no positive demand) on", i, as[i]); goto report; }
            int cnt = 0, only = -1; for (auto [si, sj, a] : sol) if (si == i) { ++cnt; only = sj; }
            if (cnt == 1 && v[as[i]] != v[only]) { printf("assign() sends unsplit source %d to sink %d, the plan sends it to %d, on", i, as[i], only); goto report; }
          }
        }
      }
      { int k = 0; while (k < dims && ++dig[k] == radix[k]) dig[k++] = 0; if (k == dims) break; }
      continue;
    report:
      printf(" u="); for (auto x : u) printf("%lld,", x); printf(" v="); for (auto x : v) printf("%lld,", x); printf(" s="); for (auto x : s) printf("%lld,", x); printf(" d="); for (auto x : d) printf("%lld,", x); printf("\n");
      return 1;
    }
  }
  printf("%lld instances: valid, optimal, assignment consistent and memory-safe\n", tot);
  return 0;
}
