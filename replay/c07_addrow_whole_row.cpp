// C07 history: a reordering window that covers a whole row (addRow(row, -1, -1)); assertion-enabled build
#include <cstdio>
#include "spec_cpp.h"
int main() {
  for (int nc = 2; nc <= 4; ++nc) {
    Circuit c(nc);
    std::vector<int> w, h, x, y; std::vector<bool> fx;
    for (int i = 0; i < nc; ++i) { w.push_back(2 + i); h.push_back(10); x.push_back(10 * i); y.push_back(0); fx.push_back(false); }
    c.setCellWidth(w); c.setCellHeight(h); c.setCellX(x); c.setCellY(y); c.setCellIsFixed(fx);
    c.setupRows(Rectangle(0, 60, 0, 10), 10);
    c.addNet({0, nc - 1}, {0, 0}, {0, 0});
    ColoquinteParameters p(3);
    p.detailed.reorderingMaxNbCells = nc + 1; p.detailed.reorderingNbRows = 1;
    c.legalize(p);
    c.placeDetailed(p);
  }
  printf("ok\n");
  return 0;
}
