/*@unit
properties = ["C05"]
safety = []
mode = "dfcc"
enforce = "place_orientation_update"
loop_contracts = false
timeout = 120
function = "DetailedPlacement::place (the orientation update) against the pin offsets frozen in IncrNetModel at construction"
variants = [
  {name = "main", defines = ["REGION_EXCLUDED"]},
  {name = "kf_orientation_change", defines = ["REGION_ONLY"], expect_fail = ["postcondition"]},
]
assumptions = ["the incremental objective uses pin offsets computed once from the orientations at construction (IncrNetModel::xTopology/yTopology); this unit checks that they still describe the circuit after place() — true whenever place() keeps the orientation, false (known finding) when a polarised cell changes row orientation"]
@*/
#include "lower.h"
int verif_exc;
/*@include units/inc/detailed_placement.inc @*/
#define MAGV(v) ((v) >= -4194304 && (v) <= 4194304)
#define MAGSZ(v) ((v) >= 0 && (v) <= 4194304)
int g_w, g_h, g_px, g_py;   /* ghost: size of the cell and one of its pins (unplaced frame) */
CellOrientation g_old;
/* the move changes the orientation of the cell */
#define REGION(p, c, row) (spec_orientation_in_row((p)->cellRowPolarity_[c], (p)->rows_[row].orientation) != CellOrientation_UNKNOWN && spec_orientation_in_row((p)->cellRowPolarity_[c], (p)->rows_[row].orientation) != (p)->cellOrientation_[c])
void place_orientation_update(DetailedPlacement *this, int c, int row)
__CPROVER_requires(__CPROVER_is_fresh(this, sizeof(*this)) && this->cellWidth__size == 1 && this->rows__size == 1 && c == 0 && row == 0)
__CPROVER_requires(__CPROVER_is_fresh(this->cellRowPolarity_, sizeof(CellRowPolarity)) && __CPROVER_is_fresh(this->cellOrientation_, sizeof(CellOrientation)) && __CPROVER_is_fresh(this->rows_, sizeof(Row)))
__CPROVER_requires(VALID_POLARITY(this->cellRowPolarity_[c]) && VALID_ORIENT8(this->cellOrientation_[c]) && VALID_ORIENT8(this->rows_[row].orientation) && g_old == this->cellOrientation_[c])
__CPROVER_requires(spec_orientation_in_row(this->cellRowPolarity_[c], this->rows_[row].orientation) != CellOrientation_INVALID)
__CPROVER_requires(MAGSZ(g_w) && MAGSZ(g_h) && MAGV(g_px) && MAGV(g_py))
#if defined(REGION_EXCLUDED)
__CPROVER_requires(!REGION(this, c, row))
#else
__CPROVER_requires(REGION(this, c, row))
#endif
/* the pin offsets frozen at construction still equal the geometric offsets under the cell's orientation */
__CPROVER_ensures(spec_pin_x(this->cellOrientation_[c], g_w, g_h, g_px, g_py) == spec_pin_x(g_old, g_w, g_h, g_px, g_py) && spec_pin_y(this->cellOrientation_[c], g_w, g_h, g_px, g_py) == spec_pin_y(g_old, g_w, g_h, g_px, g_py))
__CPROVER_assigns(this->cellOrientation_[c])
/*@extract
file = "src/place_detailed/detailed_placement.cpp"
head = 'void DetailedPlacement::place\(int c, int row, int pred, int x\)'
slice_from = 'CellOrientation orient ='
slice_to = 'int next = pred == -1'
this_members = {file = "src/place_detailed/detailed_placement.hpp", class = "DetailedPlacement"}
@*/
void harness(void) { DetailedPlacement *t; int c, row; place_orientation_update(t, c, row); REACH("end"); }
