/*@unit
properties = ["C10"]
mode = "dfcc"
enforce = "Circuit_placeGlobal"
loop_contracts = false
timeout = 120
function = "Circuit::placeGlobal, legalize, placeDetailed (coloquinte.cpp)"
variants = [
  {name = "placeGlobal", enforce = "Circuit_placeGlobal", defines = ["H_GLOBAL"], replace = ["GlobalPlacer_place"]},
  {name = "legalize", enforce = "Circuit_legalize", defines = ["H_LEGALIZE"], replace = ["DetailedPlacer_legalize"]},
  {name = "placeDetailed", enforce = "Circuit_placeDetailed", defines = ["H_DETAILED"], replace = ["DetailedPlacer_place"]},
]
assumptions = ["the placers (GlobalPlacer::place, DetailedPlacer::legalize/place) are replaced by the contract 'may throw; must be entered with the busy flag set; never write the busy flag' (their own frames are units c03_*)",
               "try/catch(...)/throw; lowered by rule 8: inside a try block a may-throw call propagates to the handler (goto), outside it returns; the handler runs iff verif_exc is set, clears it, and 'throw;' re-raises, 'throw;' returns with verif_exc still set"]
[replay]
template = "replay/c10_busy.cpp"
search = true
inputs = []
@*/
#include "lower.h"
int verif_exc;
/*@include units/inc/circuit.inc @*/
typedef struct ColoquinteParameters ColoquinteParameters;
typedef struct Callback Callback;

/* the placer is entered with the circuit marked busy, may end by an exception, and does not touch the flag */
#define PLACER(name) void name(Circuit *this, const ColoquinteParameters *params, const Callback *callback) \
  __CPROVER_requires(isInUse_ == true) \
  __CPROVER_assigns(verif_exc, hasCellSizeUpdate_, hasNetUpdate_) \
  ;
#define ENTRY(name) void name(Circuit *this, const ColoquinteParameters *params, const Callback *callback) \
  __CPROVER_requires(FRESH_THIS(Circuit) && verif_exc == 0) \
  /* C10: once the call has ended, by return or by any exception, modifications are accepted again */ \
  __CPROVER_ensures(isInUse_ == false) \
  __CPROVER_assigns(verif_exc, isInUse_, hasCellSizeUpdate_, hasNetUpdate_)


#ifdef H_GLOBAL
PLACER(GlobalPlacer_place)
ENTRY(Circuit_placeGlobal)
/*@extract
file = "src/coloquinte.cpp"
head = 'void Circuit::placeGlobal\(const ColoquinteParameters &params,'
rewrites = [['GlobalPlacer::place\(\*this, params, callback\);', 'GlobalPlacer_place(this, params, callback); VERIF_PROPAGATE;', '1+']]
@*/
#endif
#ifdef H_LEGALIZE
PLACER(DetailedPlacer_legalize)
ENTRY(Circuit_legalize)
/*@extract
file = "src/coloquinte.cpp"
head = 'void Circuit::legalize\(const ColoquinteParameters &params,'
rewrites = [['DetailedPlacer::legalize\(\*this, params, callback\);', 'DetailedPlacer_legalize(this, params, callback); VERIF_PROPAGATE;', '1+']]
@*/
#endif
#ifdef H_DETAILED
PLACER(DetailedPlacer_place)
ENTRY(Circuit_placeDetailed)
/*@extract
file = "src/coloquinte.cpp"
head = 'void Circuit::placeDetailed\(const ColoquinteParameters &params,'
rewrites = [['DetailedPlacer::place\(\*this, params, callback\);', 'DetailedPlacer_place(this, params, callback); VERIF_PROPAGATE;', '1+']]
@*/
#endif

void harness(void) {
  Circuit *c; const ColoquinteParameters *p; const Callback *cb;
#if defined(H_GLOBAL)
  Circuit_placeGlobal(c, p, cb);
#elif defined(H_LEGALIZE)
  Circuit_legalize(c, p, cb);
#else
  Circuit_placeDetailed(c, p, cb);
#endif
  REACH("end");
}
