/*@unit
properties = ["C01", "C04"]
mode = "dfcc"
enforce = "Tetris_placeCell"
timeout = 600
function = "TetrisLegalizer::placeCell (row search with the [&] lambda inlined), instanciateCell (one level) (tetris_legalizer.cpp)"
variants = [
  {name = "placeCell", enforce = "Tetris_placeCell", defines = ["H_PLACE"], replace = ["LegalizerBase_closestRow", "Tetris_attemptPlacement", "LegalizerBase_getOrientation", "Tetris_instanciateCell", "isTurn"]},
  {name = "instanciateLevel", enforce = "Tetris_instanciateLevel", defines = ["H_INST"], replace = ["LegalizerBase_closestRow"]},
]
assumptions = ["attemptPlacement / getPossibleIntervals (recursive interval intersection over vector<pair<int,int>>) are replaced by an oracle contract: attemptPlacement(cell, y) returns (ok[y], x[y]); what is proved is that placeCell stores a position attemptPlacement returned for the chosen row, with the orientation prescribed for THAT row, and occupies exactly that footprint",
               "instanciateCell is verified one stacked level at a time (its recursion descends one row height per level); closestRow is replaced by 'some row index' (std::lower_bound)",
               "rows with the same y are contiguous in rows_ (LegalizerBase constructor sorts them): used only through the loop's own break"]
@*/
#include "lower.h"
int verif_exc;
/*@include units/inc/circuit.inc @*/
/*@include units/inc/circuit_off.inc @*/
#undef circuit
#include "spec/orient.h"
#define NMAX 1000
#define RMAX 64
/*@struct
file = "src/place_detailed/legalizer.hpp"
class = "LegalizerBase"
known = ["Row", "CellRowPolarity", "CellOrientation"]
need = ["rows_", "cellWidth_", "cellHeight_", "cellTargetX_", "cellTargetY_", "cellToX_", "cellToY_", "cellToOrientation_", "cellIsPlaced_"]
@*/
typedef struct { LegalizerBase base; int *rowFreePos_; int rowFreePos__size; } TetrisLegalizer;
int n, m;
int LegalizerBase_closestRow(const LegalizerBase *this, int y)
__CPROVER_requires(1)
__CPROVER_ensures(0 <= __CPROVER_return_value && __CPROVER_return_value < m)
__CPROVER_assigns();
#define closestRow(y) LegalizerBase_closestRow(this, y)
#define nbRows() (this->rows__size)

#ifdef H_PLACE
/* abstraction of the row geometry for the row search: row i has minY == i */
#define VERIF_ROW_Y(r) (r)
/* oracle of attemptPlacement per row index: feasibility and x */
bool *g_ok; int *g_x; CellOrientation *g_orient;
int g_lastrow;  /* ghost: row index of the last closestRow() answer that matters (rows have distinct y in this abstraction) */
Pair_bool_int Tetris_attemptPlacement(const TetrisLegalizer *self, int cell, int y)
__CPROVER_requires(0 <= y && y < m)   /* abstraction: a row's y is represented by its index */
__CPROVER_ensures(__CPROVER_return_value.first == g_ok[y] && __CPROVER_return_value.second == g_x[y])
__CPROVER_assigns();
CellOrientation LegalizerBase_getOrientation(const LegalizerBase *this, int cell, int row)
__CPROVER_requires(0 <= row && row < m)
__CPROVER_ensures(__CPROVER_return_value == g_orient[row])
__CPROVER_assigns();
bool isTurn(CellOrientation o)
__CPROVER_requires(1) __CPROVER_ensures(__CPROVER_return_value == spec_is_turn(o)) __CPROVER_assigns();
int g_ix, g_iy, g_iw, g_ih, g_icalls;
void Tetris_instanciateCell(TetrisLegalizer *self, int x, int y, int w, int h)
__CPROVER_requires(1)
__CPROVER_ensures(g_ix == x && g_iy == y && g_iw == w && g_ih == h && g_icalls == __CPROVER_old(g_icalls) + 1)
__CPROVER_assigns(g_ix, g_iy, g_iw, g_ih, g_icalls);
#undef closestRow
/* abstraction: row i has y == i, so closestRow(y) == y */
#define closestRow(y) (y)
void Tetris_placeCell(TetrisLegalizer *self, int cell)
__CPROVER_requires(__CPROVER_is_fresh(self, sizeof(*self)) && 1 <= n && n <= NMAX && 1 <= m && m <= RMAX && 0 <= cell && cell < n && g_icalls == 0)
__CPROVER_requires(CFRESH(&self->base, cellWidth_, n, int) && CFRESH(&self->base, cellHeight_, n, int) && CFRESH(&self->base, cellTargetX_, n, int) && CFRESH(&self->base, cellTargetY_, n, int))
__CPROVER_requires(CFRESH(&self->base, cellToX_, n, int) && CFRESH(&self->base, cellToY_, n, int) && CFRESH(&self->base, cellToOrientation_, n, CellOrientation) && CFRESH(&self->base, cellIsPlaced_, n, bool) && CFRESH(&self->base, rows_, m, Row))
__CPROVER_requires(__CPROVER_is_fresh(g_ok, m * sizeof(bool)) && __CPROVER_is_fresh(g_x, m * sizeof(int)) && __CPROVER_is_fresh(g_orient, m * sizeof(CellOrientation)))
__CPROVER_requires(MAGV(self->base.cellTargetX_[cell]) && 0 <= self->base.cellTargetY_[cell] && self->base.cellTargetY_[cell] < m && MAGSZ(self->base.cellWidth_[cell]) && MAGSZ(self->base.cellHeight_[cell]) && !self->base.cellIsPlaced_[cell])
/* C01: a placed cell sits at a position attemptPlacement accepted for its row, and exactly that footprint is occupied */
__CPROVER_ensures(self->base.cellIsPlaced_[cell] ==> (0 <= self->base.cellToY_[cell] && self->base.cellToY_[cell] < m && g_ok[self->base.cellToY_[cell]] && self->base.cellToX_[cell] == g_x[self->base.cellToY_[cell]]))
/* C04: its orientation is the one prescribed for the row it sits on */
__CPROVER_ensures(self->base.cellIsPlaced_[cell] ==> self->base.cellToOrientation_[cell] == g_orient[self->base.cellToY_[cell]])
__CPROVER_ensures(self->base.cellIsPlaced_[cell] ==> (g_icalls == 1 && g_ix == self->base.cellToX_[cell] && g_iy == self->base.cellToY_[cell]
   && g_iw == (spec_is_turn(self->base.cellToOrientation_[cell]) ? self->base.cellHeight_[cell] : self->base.cellWidth_[cell]) && g_ih == (spec_is_turn(self->base.cellToOrientation_[cell]) ? self->base.cellWidth_[cell] : self->base.cellHeight_[cell])))
__CPROVER_ensures(!self->base.cellIsPlaced_[cell] ==> g_icalls == 0)
__CPROVER_assigns(self->base.cellToX_[cell], self->base.cellToY_[cell], self->base.cellToOrientation_[cell], self->base.cellIsPlaced_[cell], g_ix, g_iy, g_iw, g_ih, g_icalls)
#define this (&self->base)
/*@extract
file = "src/place_detailed/tetris_legalizer.cpp"
head = 'void TetrisLegalizer::placeCell\(int cell\)'
this_members = {file = "src/place_detailed/legalizer.hpp", class = "LegalizerBase"}
nloops = 2
rewrites = [['\battemptPlacement\(', 'Tetris_attemptPlacement(self, ', '1+'], ['(?<![\w.])getOrientation\(', 'LegalizerBase_getOrientation(this, ', '1+'], ['\binstanciateCell\(', 'Tetris_instanciateCell(self, ', '1+'],
            ['rows_\[row\]\.minY', 'VERIF_ROW_Y(row)', '1+']]
[[loops]]
ordinal = 1
contract = '''
__CPROVER_assigns(row, found, bestDist, bestX, bestY)
__CPROVER_loop_invariant(0 <= row && row <= m && bestDist >= 0)
__CPROVER_loop_invariant(found ==> (0 <= bestY && bestY < m && g_ok[bestY] && bestX == g_x[bestY]))
__CPROVER_decreases(m - row)
'''
[[loops]]
ordinal = 2
contract = '''
__CPROVER_assigns(row, found, bestDist, bestX, bestY)
__CPROVER_loop_invariant(-1 <= row && row < m && bestDist >= 0)
__CPROVER_loop_invariant(found ==> (0 <= bestY && bestY < m && g_ok[bestY] && bestX == g_x[bestY]))
__CPROVER_decreases(row + 1)
'''
[[ghosts]]
at = 'body_start:1'
text = '''GHOST(const int g_xr = g_x[row];) __CPROVER_assume(MAGV(g_xr)); /* INSTANTIATE MAG: positions returned by attemptPlacement are clamped into row intervals */'''
[[ghosts]]
at = 'body_start:2'
text = '''GHOST(const int g_xr2 = g_x[row];) __CPROVER_assume(MAGV(g_xr2)); /* INSTANTIATE MAG */'''
@*/
#undef this
#endif

#ifdef H_INST
int g_r; int g_oldfree; bool g_visited;
void Tetris_instanciateLevel(TetrisLegalizer *self, int x, int y, int w, int h)
__CPROVER_requires(__CPROVER_is_fresh(self, sizeof(*self)) && 1 <= m && m <= RMAX && CFRESH(&self->base, rows_, m, Row) && self->rowFreePos__size == m && __CPROVER_is_fresh(self->rowFreePos_, m * sizeof(int)))
__CPROVER_requires(MAGV(x) && MAGV(y) && 1 <= w && w <= 4194304 && 1 <= h && h <= 4194304 && 0 <= g_r && g_r < m && g_oldfree == self->rowFreePos_[g_r] && !g_visited)
/* C01: on this level, exactly the visited segments at height y that overlap [x, x+w) get their free position moved to x+w; every other segment keeps it */
__CPROVER_ensures(self->rowFreePos_[g_r] == ((g_visited && self->base.rows_[g_r].minY == y && x < self->base.rows_[g_r].maxX && x + w > self->base.rows_[g_r].minX) ? x + w : g_oldfree))
__CPROVER_assigns(__CPROVER_object_whole(self->rowFreePos_), g_visited)
#define this (&self->base)
#define rowFreePos_ (self->rowFreePos_)
/*@extract
file = "src/place_detailed/tetris_legalizer.cpp"
head = 'void TetrisLegalizer::instanciateCell\(int x, int y, int w, int h\)'
slice_from = 'int rowInd = closestRow\(y\);'
slice_to = 'if \(h <= rowHeight\(\)\) \{'
this_members = {file = "src/place_detailed/legalizer.hpp", class = "LegalizerBase"}
nloops = 1
[[loops]]
ordinal = 1
contract = '''
__CPROVER_assigns(r, __CPROVER_object_whole(rowFreePos_), g_visited)
__CPROVER_loop_invariant(0 <= r && r <= m)
__CPROVER_loop_invariant(rowFreePos_[g_r] == ((g_visited && this->rows_[g_r].minY == y && x < this->rows_[g_r].maxX && x + w > this->rows_[g_r].minX) ? x + w : g_oldfree))
__CPROVER_loop_invariant(g_visited ==> g_r < r)
__CPROVER_decreases(m - r)
'''
[[ghosts]]
at = 'body_start:1'
text = '''GHOST(const int g_rmin = this->rows_[r].minX; const int g_rmax = this->rows_[r].maxX;) __CPROVER_assume(MAGV(g_rmin) && MAGV(g_rmax)); GHOST(if (r == g_r && this->rows_[r].minY == y) g_visited = 1;)'''
@*/
#undef this
#undef rowFreePos_
#endif

void harness(void) {
  TetrisLegalizer *t; int a, b, c, d;
#if defined(H_PLACE)
  Tetris_placeCell(t, a);
#else
  Tetris_instanciateLevel(t, a, b, c, d);
#endif
  REACH("end");
}
