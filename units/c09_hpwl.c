/*@unit
properties = ["C09"]
mode = "dfcc"
enforce = "Circuit_hpwl"
replace = ["Circuit_pinXOffset", "Circuit_pinYOffset"]
timeout = 600
function = "Circuit::hpwl (coloquinte.cpp)"
assumptions = ["named invariant P (every pinCells_[k] in [0,nbCells), netLimits_ non-decreasing within [0,nbPins]) is instantiated at the loop indices; P is established by addNet/setNets (unit c19_nets)",
               "the sum over nets is accounted per iteration (ret increases by exactly the half-perimeter of the net's bounding box); the algebra of the sum itself is a paper step"]
[replay]
template = "replay/c09_hpwl_search.cpp"
search = true
inputs = []
@*/
#include "lower.h"
int verif_exc;
/*@include units/inc/circuit.inc @*/

int nc, nn, np;
/* ghost: the pin offsets under the current orientation, one entry per pin (what pinXOffset/pinYOffset return;
 * their equality with the geometric spec is unit c09_pin_offsets) */
int *g_offx, *g_offy;
/* ghost net and ghost pin: arbitrary, so the facts proved about them hold for every pin of every net */
int g_net, g_q, g_px, g_py, g_base, g_lim, g_cell, g_cx, g_cy, g_ox, g_oy;
/* ghost witnesses: pin coordinates actually seen that attain the bounds */
int g_wminx, g_wmaxx, g_wminy, g_wmaxy;
long long g_ret_before;

int Circuit_pinXOffset(const Circuit *this, int net, int i)
__CPROVER_requires(net >= 0 && net < nn && i >= 0 && i < netLimits_[net + 1] - netLimits_[net])
__CPROVER_ensures(__CPROVER_return_value == g_offx[netLimits_[net] + i])
__CPROVER_assigns()
;
int Circuit_pinYOffset(const Circuit *this, int net, int i)
__CPROVER_requires(net >= 0 && net < nn && i >= 0 && i < netLimits_[net + 1] - netLimits_[net])
__CPROVER_ensures(__CPROVER_return_value == g_offy[netLimits_[net] + i])
__CPROVER_assigns()
;
#define pinXOffset(n, i) Circuit_pinXOffset(this, n, i)
#define pinYOffset(n, i) Circuit_pinYOffset(this, n, i)

#define NCMAX 4096
#define NPMAX 16384
/* coordinates of pins stay in int range: |x| <= 2^22, |offset| <= 2^23 (placed size + offset) */
#define MAGO(v) ((v) >= -8388608 && (v) <= 8388608)

long long Circuit_hpwl(const Circuit *this)
__CPROVER_requires(nc >= 1 && nc <= NCMAX && nn >= 0 && nn <= NCMAX && np >= 0 && np <= NPMAX)
__CPROVER_requires(FRESH_THIS(Circuit) && FRESH_ARR(cellWidth_, nc, int) && FRESH_ARR(cellX_, nc, int) && FRESH_ARR(cellY_, nc, int))
__CPROVER_requires(FRESH_ARR(netLimits_, nn + 1, int) && FRESH_ARR(pinCells_, np, int))
__CPROVER_requires(__CPROVER_is_fresh(g_offx, np * sizeof(int)) && __CPROVER_is_fresh(g_offy, np * sizeof(int)))
__CPROVER_requires(netLimits_[0] == 0 && netLimits_[nn] == np)
/* ghost pin (g_net, g_q) and its coordinates under the current placement (single-level reads only) */
__CPROVER_requires(g_net >= 0 && g_net < nn && g_q >= 0 && g_base == netLimits_[g_net] && g_base >= 0 && g_lim == netLimits_[g_net + 1] && g_base <= g_lim && g_lim <= np && g_q < g_lim - g_base)
__CPROVER_requires(g_cell == pinCells_[g_base + g_q] && g_cell >= 0 && g_cell < nc)
__CPROVER_requires(g_cx == cellX_[g_cell] && MAGV(g_cx) && g_ox == g_offx[g_base + g_q] && MAGO(g_ox) && g_px == g_cx + g_ox)
__CPROVER_requires(g_cy == cellY_[g_cell] && MAGV(g_cy) && g_oy == g_offy[g_base + g_q] && MAGO(g_oy) && g_py == g_cy + g_oy)
__CPROVER_ensures(__CPROVER_return_value >= 0)
__CPROVER_assigns(g_wminx, g_wmaxx, g_wminy, g_wmaxy, g_ret_before)
/*@extract
file = "src/coloquinte.cpp"
head = 'long long Circuit::hpwl\(\) const'
nloops = 2
[[loops]]
ordinal = 1
contract = '''
__CPROVER_assigns(net, ret, g_wminx, g_wmaxx, g_wminy, g_wmaxy, g_ret_before)
__CPROVER_loop_invariant(0 <= net && net <= nn)
__CPROVER_loop_invariant(0 <= ret && ret <= (long long)net * 67108864LL)
__CPROVER_decreases(nn - net)
'''
[[loops]]
ordinal = 2
contract = '''
__CPROVER_assigns(pin, minX, maxX, minY, maxY, g_wminx, g_wmaxx, g_wminy, g_wmaxy)
__CPROVER_loop_invariant(0 <= pin && pin <= netLimits_[net + 1] - netLimits_[net])
__CPROVER_loop_invariant(pin == 0 ==> (minX == INT_MAX && maxX == INT_MIN && minY == INT_MAX && maxY == INT_MIN))
__CPROVER_loop_invariant(pin > 0 ==> (minX == g_wminx && maxX == g_wmaxx && minY == g_wminy && maxY == g_wmaxy))
__CPROVER_loop_invariant(pin > 0 ==> (minX <= maxX && minY <= maxY && minX >= -16777216 && maxX <= 16777216 && minY >= -16777216 && maxY <= 16777216))
__CPROVER_loop_invariant((net == g_net && g_q < pin) ==> (minX <= g_px && g_px <= maxX && minY <= g_py && g_py <= maxY))
__CPROVER_decreases(netLimits_[net + 1] - netLimits_[net] - pin)
'''
[[ghosts]]
at = 'body_start:1'
text = '''GHOST(g_ret_before = ret;) __CPROVER_assume(netLimits_[net] >= 0 && netLimits_[net] <= netLimits_[net + 1] && netLimits_[net + 1] <= np); /* INSTANTIATE P(net) */'''
[[ghosts]]
before = 'continue;'
text = '''__CPROVER_assert(ret == g_ret_before, "spec: an empty net contributes nothing");'''
[[ghosts]]
after = 'int cell = pinCell\(net, pin\);'
text = '''__CPROVER_assume(cell >= 0 && cell < nc); /* INSTANTIATE P(pin) */
GHOST(const int g_k = netLimits_[net] + pin; const int g_vx = cellX_[cell]; const int g_vy = cellY_[cell]; const int g_vox = g_offx[g_k]; const int g_voy = g_offy[g_k];)
__CPROVER_assume(MAGV(g_vx) && MAGV(g_vy) && MAGO(g_vox) && MAGO(g_voy)); /* INSTANTIATE MAG(pin) */'''
[[ghosts]]
at = 'body_end:2'
text = '''GHOST(if (pin == 0 || px < g_wminx) g_wminx = px; if (pin == 0 || px > g_wmaxx) g_wmaxx = px; if (pin == 0 || py < g_wminy) g_wminy = py; if (pin == 0 || py > g_wmaxy) g_wmaxy = py;)
__CPROVER_assert(!(net == g_net && pin == g_q) || (px == g_px && py == g_py), "spec: pin location = cell position + oriented pin offset");'''
[[ghosts]]
at = 'after:2'
text = '''__CPROVER_assert(net != g_net || (minX <= g_px && g_px <= maxX && minY <= g_py && g_py <= maxY), "spec: the bounding box of a net contains every pin of the net");
__CPROVER_assert(minX == g_wminx && maxX == g_wmaxx && minY == g_wminy && maxY == g_wmaxy, "spec: each side of the bounding box is attained by a pin");'''
[[ghosts]]
at = 'body_end:1'
text = '''__CPROVER_assert(ret == g_ret_before + ((long long)g_wmaxx - g_wminx) + ((long long)g_wmaxy - g_wminy), "spec: a net contributes exactly the half-perimeter of its bounding box");'''
@*/

void harness(void) {
  Circuit *c;
  Circuit_hpwl(c);
  REACH("end");
}
