/*@unit
properties = ["C06"]
mode = "dfcc"
enforce = "GlobalPlacer_computeAverageCellSize"
timeout = 200
solver = "cvc5"
split = true
loop_contracts = false
function = "GlobalPlacer::computeAverageCellSize (place_global.cpp): the length from which the penalty cutoff and approximation distances are derived is sqrt(total movable area / number of cells) computed in floating point, hence strictly positive whenever there is movable area (a zero here makes the penalty weights 0/0)"
variants = [ {name = "main", enforce = "GlobalPlacer_computeAverageCellSize", defines = []} ]
assumptions = ["leg_.totalDemand() / leg_.nbCells() are ghost scalars; std::sqrt is recorded with its argument and returns an arbitrary value of the same sign class (0 for 0, positive for positive): the exact value of the square root is not decided"]
@*/
#include "lower.h"
int verif_exc;
typedef struct { int dummy; } GlobalPlacer;
long long g_td; int g_nc;
float g_sqrt_arg; bool g_sqrt_called;
float nondet_float(void);
#define LEG_totalDemand() (g_td)
#define LEG_nbCells() (g_nc)
static inline float verif_sqrt(float x) { g_sqrt_arg = x; g_sqrt_called = 1; float r = nondet_float(); __CPROVER_assume(x > 0.0f ? r > 0.0f : r == 0.0f); return r; }
float GlobalPlacer_computeAverageCellSize(const GlobalPlacer *this)
__CPROVER_requires(__CPROVER_is_fresh(this, sizeof(*this)) && 0 <= g_td && g_td <= (1LL << 50) && 1 <= g_nc && g_nc <= (1 << 24) && !g_sqrt_called)
/* C06: the average demand is a real-valued quotient, and the resulting size is positive as soon as some cell has area */
__CPROVER_ensures(g_sqrt_called && g_sqrt_arg == (g_td == 0 ? 0.0f : (float)g_td / g_nc))
__CPROVER_ensures(g_td > 0 ==> __CPROVER_return_value > 0.0f)
__CPROVER_assigns(g_sqrt_arg, g_sqrt_called)
/*@extract
file = "src/place_global/place_global.cpp"
head = 'float GlobalPlacer::computeAverageCellSize\(\) const'
rewrites = [['\bleg_\.(totalDemand|nbCells)\(\)', 'LEG_\1()', '1+'], ['std::sqrt\(', 'verif_sqrt(', '1']]
@*/
void harness(void) { GlobalPlacer *g; GlobalPlacer_computeAverageCellSize(g); REACH("end"); }
