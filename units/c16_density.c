/*@unit
properties = ["C16", "C06"]
mode = "dfcc"
enforce = "computeSubdivisions"
timeout = 600
function = "computeSubdivisions (helpers.hpp); HierarchicalDensityPlacement::findBinByX/Y, fromIspdCircuit; DensityGrid::fromIspdCircuit (row clipping), updateBinCapacity(regions) (per region/bin contribution), computePlacementArea; blendPlacement (place_global.cpp)"
variants = [
  {name = "subdivisions", enforce = "computeSubdivisions", defines = ["H_SUBDIV"], solver = "kissat", bounded = "number of subdivisions <= 16 (division by a symbolic divisor: the unbounded query does not finish on any back end); coordinates unbounded within |v| <= 2^22"},
  {name = "subdivisions_wide", enforce = "computeSubdivisions", defines = ["H_SUBDIV", "WIDE"], solver = "kissat", timeout = 400},
  {name = "findBinX", enforce = "HDP_findBinByX", defines = ["H_FINDX"]},
  {name = "findBinY", enforce = "HDP_findBinByY", defines = ["H_FINDY"]},
  {name = "demands", enforce = "HDP_demands", defines = ["H_DEMANDS"]},
  {name = "area", enforce = "area_accessor", defines = ["H_CAREA"], solver = "cvc5"},
  {name = "clipRows", enforce = "DensityGrid_clipRows", defines = ["H_CLIP"]},
  {name = "binContribution", enforce = "bin_contribution", defines = ["H_CONTRIB"], loop_contracts = false, solver = "kissat"},
  {name = "placementArea", enforce = "DensityGrid_computePlacementArea", defines = ["H_AREA"]},
  {name = "blendShortcuts", enforce = "blend_shortcuts", defines = ["H_BLENDSC"], loop_contracts = false},
  {name = "blend", enforce = "blend_step", defines = ["H_BLEND"], loop_contracts = false, solver = "cvc5"},
]
assumptions = ["not under contract: setupHierarchy/refine/coarsen (vector<vector<vector<int>>> cell lists), DensityLegalizer (bisection, transport glue), spreadCells (std::sort, std::accumulate in float): the clauses 'every cell in exactly one bin through any sequence of refine/coarsen/legalization passes', 'coordinates inside the bin' and 'coarser views aggregate exactly' are NOT decided",
               "monotonicity of computeSubdivisions (ret[k] <= ret[k+1]) is a multiplicative fact that no back end decides; size, end points and overflow-freedom are proved",
               "A(Eigen): conjugate gradients; 'global placement completes without raising an error' is not decided"]
@*/
#include "lower.h"
int verif_exc;
/*@include units/inc/circuit.inc @*/
/*@include units/inc/circuit_off.inc @*/
#define NMAX 4096
int g;

#ifdef H_SUBDIV
#ifdef WIDE
/* assertion-free build (NDEBUG, as the pinned test build): up to 4096 subdivisions; the quotient facts are instantiated */
#undef assert
#define assert(e) ((void)0)
#define SUBDIV_MAX NMAX
#define SUBDIV_INV 1
#define SUBDIV_FACTS __CPROVER_assume((long long)i * (max - min) / number >= 0 && (long long)i * (max - min) / number <= (long long)(max - min)) /* INSTANTIATE 0 <= i*d/n <= d for 0 <= i <= n, d >= 0 (paper lemma) */
#else
#define SUBDIV_MAX 16
#define SUBDIV_INV ((i > 0 ==> ret[0] == min) && (i == number + 1 ==> ret[number] == max))
#define SUBDIV_FACTS ((void)0)
#endif
int *g_buf; int g_size;
#define VEC_PUSH_BACK_L(v, x) do { v[v##_size] = (x); v##_size = v##_size + 1; } while (0)
void computeSubdivisions(int min, int max, int number)
__CPROVER_requires(MAGV(min) && MAGV(max) && min <= max && 1 <= number && number <= SUBDIV_MAX && __CPROVER_is_fresh(g_buf, (NMAX + 1) * sizeof(int)))
/* C16: number+1 limits, the first is min and the last is max (the bins tile [min,max]); no overflow for |v| <= 2^22 (C07) */
#ifndef WIDE
__CPROVER_ensures(g_size == number + 1 && g_buf[0] == min && g_buf[number] == max)
#else
__CPROVER_ensures(g_size == number + 1)
#endif
__CPROVER_assigns(__CPROVER_object_whole(g_buf), g_size)
/*@extract
file = "src/utils/helpers.hpp"
head = 'inline std::vector<int> computeSubdivisions\(int min, int max, int number\)'
nloops = 1
rewrites = [['std::vector<int> ret;', 'int *ret = g_buf; int ret_size = 0;', '1'], ['ret\.push_back\(', 'VEC_PUSH_BACK_L(ret, ', '1'], ['return ret;', 'g_size = ret_size; return;', '1']]
[[loops]]
ordinal = 1
contract = '''
__CPROVER_assigns(i, ret_size, __CPROVER_object_whole(g_buf))
__CPROVER_loop_invariant(0 <= i && i <= number + 1 && ret_size == i)
__CPROVER_loop_invariant(SUBDIV_INV)
__CPROVER_decreases(number + 1 - i)
'''
[[ghosts]]
at = 'body_start:1'
text = '''SUBDIV_FACTS;'''
@*/
#endif

#if defined(H_FINDX) || defined(H_FINDY)
typedef struct { int dummy; } HDP;
int *g_lim; int nb;
/* the bin limits of the current hierarchy level as an array (HierarchicalDensityPlacement::binLimitX/Y resolve the level) */
static inline int HDP_lim(int k) { __CPROVER_assert(0 <= k && k <= nb, "repo assert: x <= nbBinsX()"); return g_lim[k]; }
#define HDP_binLimitX(this, k) HDP_lim(k)
#define HDP_binLimitY(this, k) HDP_lim(k)
#define HDP_nbBinsX(this) (nb)
#define HDP_nbBinsY(this) (nb)
#define FIND_CONTRACT \
__CPROVER_requires(__CPROVER_is_fresh(this, sizeof(HDP)) && 1 <= nb && nb <= NMAX && __CPROVER_is_fresh(g_lim, (nb + 1) * sizeof(int))) \
/* C16: the returned bin contains the coordinate, or it is the first/last bin for coordinates outside the grid */ \
__CPROVER_ensures(0 <= __CPROVER_return_value && __CPROVER_return_value < nb) \
__CPROVER_ensures(g_lim[__CPROVER_return_value] <= coord || __CPROVER_return_value == 0) \
__CPROVER_ensures(g_lim[__CPROVER_return_value + 1] > coord || __CPROVER_return_value == nb - 1) \
__CPROVER_assigns()
#endif
#ifdef H_FINDX
int HDP_findBinByX(const HDP *this, int coord)
FIND_CONTRACT
/*@extract
file = "src/place_global/density_grid.cpp"
head = 'int HierarchicalDensityPlacement::findBinByX\(int coord\) const'
nloops = 1
rewrites = [['\bbinLimitX\(', 'HDP_binLimitX(this, ', '1+'], ['\bnbBinsX\(\)', 'HDP_nbBinsX(this)', '1+']]
[[loops]]
ordinal = 1
contract = '''
__CPROVER_assigns(mn, mx)
__CPROVER_loop_invariant(0 <= mn && mn < mx && mx <= nb && (g_lim[mn] <= coord || mn == 0) && (mx == nb || g_lim[mx] > coord))
__CPROVER_decreases(mx - mn)
'''
@*/
#endif
#ifdef H_FINDY
int HDP_findBinByY(const HDP *this, int coord)
FIND_CONTRACT
/*@extract
file = "src/place_global/density_grid.cpp"
head = 'int HierarchicalDensityPlacement::findBinByY\(int coord\) const'
nloops = 1
rewrites = [['\bbinLimitY\(', 'HDP_binLimitY(this, ', '1+'], ['\bnbBinsY\(\)', 'HDP_nbBinsY(this)', '1+']]
[[loops]]
ordinal = 1
contract = '''
__CPROVER_assigns(mn, mx)
__CPROVER_loop_invariant(0 <= mn && mn < mx && mx <= nb && (g_lim[mn] <= coord || mn == 0) && (mx == nb || g_lim[mx] > coord))
__CPROVER_decreases(mx - mn)
'''
@*/
#endif

#ifdef H_DEMANDS
int *g_dem; int n;
long long *g_area;   /* ghost: Circuit::area(c) per cell (the accessor itself: variant area) */
#define AREA_OF(c, cell) (g_area[cell])
#define VEC_PUSH_BACK_D(x) do { g_dem[demands_size] = (x); demands_size = demands_size + 1; } while (0)
void HDP_demands(const Circuit *circuit_p)
__CPROVER_requires(__CPROVER_is_fresh(circuit_p, sizeof(Circuit)) && 1 <= n && n <= NMAX && CFRESH(circuit_p, cellWidth_, n, int) && CFRESH(circuit_p, cellIsFixed_, n, bool) && __CPROVER_is_fresh(g_dem, n * sizeof(int)) && __CPROVER_is_fresh(g_area, n * sizeof(long long)))
__CPROVER_requires(0 <= g && g < n)
/* C03/C16: fixed cells have zero demand, movable cells their area */
__CPROVER_ensures(g_dem[g] == (circuit_p->cellIsFixed_[g] ? 0 : (int)g_area[g]))
__CPROVER_assigns(__CPROVER_object_whole(g_dem))
/*@extract
file = "src/place_global/density_grid.cpp"
head = 'HierarchicalDensityPlacement HierarchicalDensityPlacement::fromIspdCircuit\('
slice_from = 'for \(int i = 0; i < circuit\.nbCells\(\); \+\+i\) \{'
slice_to = 'return HierarchicalDensityPlacement\(grid, demands\);'
nloops = 1
rewrites = [['demands\.push_back\(', 'VEC_PUSH_BACK_D(', '2'], ['\bcircuit\.nbCells\(\)', 'Circuit_nbCells(circuit_p)', '1'], ['\bcircuit\.isFixed\(', 'Circuit_isFixed(circuit_p, ', '1+'], ['\bcircuit\.area\(', 'AREA_OF(circuit_p, ', '1+']]
[[loops]]
ordinal = 1
contract = """
__CPROVER_assigns(i, demands_size, __CPROVER_object_whole(g_dem))
__CPROVER_loop_invariant(0 <= i && i <= n && demands_size == i)
__CPROVER_loop_invariant(g < i ==> g_dem[g] == g_expected)
__CPROVER_decreases(n - i)
"""
[[ghosts]]
at = 'before:1'
text = """int demands_size = 0; GHOST(const int g_expected = circuit_p->cellIsFixed_[g] ? 0 : (int)g_area[g];)"""
[[ghosts]]
at = 'body_start:1'
text = """GHOST(const long long g_a = g_area[i];) __CPROVER_assume(0 <= g_a && g_a < (1LL << 31)); /* INSTANTIATE MAG(i): cell area below 2^31 (C07 domain) */"""
@*/
#endif

#ifdef H_CAREA
int n;
long long area_accessor(const Circuit *circuit_p, int cell)
__CPROVER_requires(__CPROVER_is_fresh(circuit_p, sizeof(Circuit)) && 1 <= n && n <= NMAX && CFRESH(circuit_p, cellWidth_, n, int) && CFRESH(circuit_p, cellHeight_, n, int) && 0 <= cell && cell < n)
__CPROVER_requires(MAGSZ(circuit_p->cellWidth_[cell]) && MAGSZ(circuit_p->cellHeight_[cell]))
__CPROVER_ensures(__CPROVER_return_value == (long long)circuit_p->cellWidth_[cell] * (long long)circuit_p->cellHeight_[cell])
__CPROVER_assigns()
{ return Circuit_area(circuit_p, cell); }
#endif

#ifdef H_CLIP
int g_pushed; int g_margin; bool g_seen;
#define CLIP_PUSH(a, b, c, d) do { __CPROVER_assert((a) == row.minX + g_margin && (b) == row.maxX - g_margin && (c) == row.minY && (d) == row.maxY && (a) < (b), "spec C16: a clipped row is the free row shrunk by the side margin on both sides, and is not empty"); g_pushed++; if (_i_row == g) g_seen = 1; } while (0)
void DensityGrid_clipRows(const Row *rows, int rows_size, int margin)
__CPROVER_requires(0 <= rows_size && rows_size <= NMAX && __CPROVER_is_fresh(rows, rows_size * sizeof(Row)) && 0 <= margin && margin <= 4194304 && g_margin == margin && g_pushed == 0 && !g_seen && 0 <= g && g < rows_size && MAGV(rows[g].minX) && MAGV(rows[g].maxX))
/* rows not wider than twice the margin are dropped, all others are kept */
__CPROVER_ensures(g_seen == (Rectangle_width(rows[g]) > 2 * margin))
__CPROVER_assigns(g_pushed, g_seen)
/*@extract
file = "src/place_global/density_grid.cpp"
head = 'DensityGrid DensityGrid::fromIspdCircuit\(const Circuit &circuit,'
slice_from = 'for \(Row row : rows\) \{'
slice_to = 'return DensityGrid\(sizeFactor \* minCellHeight, clippedRows\);'
nloops = 1
rewrites = [['row\.width\(\)', 'Rectangle_width(row)', '1+'], ['clippedRows\.emplace_back\(', 'CLIP_PUSH(', '1']]
[[loops]]
ordinal = 1
contract = '''
__CPROVER_assigns(_i_row, g_pushed, g_seen)
__CPROVER_loop_invariant(0 <= _i_row && _i_row <= rows_size && 0 <= g_pushed && g_pushed <= _i_row)
__CPROVER_loop_invariant(g < _i_row ==> (g_seen == (Rectangle_width(rows[g]) > 2 * margin)))
__CPROVER_loop_invariant(g >= _i_row ==> !g_seen)
__CPROVER_decreases(rows_size - _i_row)
'''
[[ghosts]]
after = 'Row row = rows\[_i_row\];'
text = '''__CPROVER_assume(MAGV(row.minX) && MAGV(row.maxX) && row.minX <= row.maxX); /* INSTANTIATE MAG(row) */'''
@*/
#endif

#ifdef H_CONTRIB
/* Rectangle::intersects / intersection / area, extracted from the header */
static inline bool Rect_intersects(const Rectangle *this, Rectangle o)
/*@extract
file = "src/coloquinte.hpp"
within = 'struct Rectangle\b'
head = 'bool intersects\(Rectangle o\) const'
this_members = {file = "src/coloquinte.hpp", class = "Rectangle"}
@*/
static inline Rectangle Rect_intersection(Rectangle a, Rectangle b)
/*@extract
file = "src/coloquinte.hpp"
within = 'struct Rectangle\b'
head = 'static Rectangle intersection\(Rectangle a, Rectangle b\)'
@*/
static inline int Rect_width(const Rectangle *this)
/*@extract
file = "src/coloquinte.hpp"
within = 'struct Rectangle\b'
head = 'int width\(\) const'
this_members = {file = "src/coloquinte.hpp", class = "Rectangle"}
@*/
static inline int Rect_height(const Rectangle *this)
/*@extract
file = "src/coloquinte.hpp"
within = 'struct Rectangle\b'
head = 'int height\(\) const'
this_members = {file = "src/coloquinte.hpp", class = "Rectangle"}
@*/
static inline long long Rect_area(const Rectangle *this)
/*@extract
file = "src/coloquinte.hpp"
within = 'struct Rectangle\b'
head = 'long long area\(\) const'
rewrites = [['\bwidth\(\)', 'Rect_width(this)', '1'], ['\bheight\(\)', 'Rect_height(this)', '1']]
@*/
static inline long long verif_area_of(Rectangle r) { return Rect_area(&r); }
long long g_cap;
#define OVL(lo1, hi1, lo2, hi2) ((std_min(hi1, hi2) - std_max(lo1, lo2)) > 0 ? (long long)(std_min(hi1, hi2) - std_max(lo1, lo2)) : 0LL)
void bin_contribution(Rectangle reg, Rectangle g_bin)
__CPROVER_requires(MAGV(reg.minX) && MAGV(reg.maxX) && MAGV(reg.minY) && MAGV(reg.maxY) && reg.minX <= reg.maxX && reg.minY <= reg.maxY)
__CPROVER_requires(MAGV(g_bin.minX) && MAGV(g_bin.maxX) && MAGV(g_bin.minY) && MAGV(g_bin.maxY) && g_bin.minX <= g_bin.maxX && g_bin.minY <= g_bin.maxY && g_cap >= 0 && g_cap <= (1LL << 60))
/* C16: a region adds to a bin exactly the area of their intersection (0 when they do not overlap) */
__CPROVER_ensures(g_cap == __CPROVER_old(g_cap) + ((OVL(reg.minX, reg.maxX, g_bin.minX, g_bin.maxX) > 0 && OVL(reg.minY, reg.maxY, g_bin.minY, g_bin.maxY) > 0) ? verif_area_of((Rectangle){std_max(reg.minX, g_bin.minX), std_min(reg.maxX, g_bin.maxX), std_max(reg.minY, g_bin.minY), std_min(reg.maxY, g_bin.maxY)}) : 0LL))
__CPROVER_assigns(g_cap)
/*@extract
file = "src/place_global/density_grid.cpp"
head = 'void DensityGrid::updateBinCapacity\(const std::vector<Rectangle> &regions\)'
slice_from_after = 'for \(Rectangle reg : regions\) \{\s*for \(int i = 0; i < nbBinsX\(\); \+\+i\) \{\s*for \(int j = 0; j < nbBinsY\(\); \+\+j\) \{'
slice_to = '\}\s*\}\s*\}\s*\}\s*$'
rewrites = [['\bregion\(i, j\)', 'g_bin', '1+'], ['\b(\w+)\.intersects\((\w+)\)', 'Rect_intersects(&\1, \2)', '*'], ['binCapacity_\[i\]\[j\]', 'g_cap', '1+'],
            ['Rectangle::intersection\(([^;]*?)\)\.area\(\)', 'verif_area_of(Rect_intersection(\1))', '1+']]
@*/
#endif

#ifdef H_AREA
Rectangle DensityGrid_computePlacementArea(const Rectangle *regions, int regions_size)
__CPROVER_requires(0 <= regions_size && regions_size <= NMAX && __CPROVER_is_fresh(regions, regions_size * sizeof(Rectangle)) && (regions_size == 0 || (0 <= g && g < regions_size)))
/* C06: the placement area is the bounding box of the (clipped) rows: it contains every one of them */
__CPROVER_ensures(regions_size > 0 ==> (__CPROVER_return_value.minX <= regions[g].minX && __CPROVER_return_value.maxX >= regions[g].maxX && __CPROVER_return_value.minY <= regions[g].minY && __CPROVER_return_value.maxY >= regions[g].maxY))
__CPROVER_ensures(regions_size == 0 ==> (__CPROVER_return_value.minX == 0 && __CPROVER_return_value.maxX == 0))
__CPROVER_assigns()
#undef VERIF_DUMMY
#define VERIF_DUMMY ((Rectangle){0, 0, 0, 0})
/*@extract
file = "src/place_global/density_grid.cpp"
head = 'Rectangle DensityGrid::computePlacementArea\('
nloops = 1
[[loops]]
ordinal = 1
contract = '''
__CPROVER_assigns(_i_row, minX, maxX, minY, maxY)
__CPROVER_loop_invariant(0 <= _i_row && _i_row <= regions_size)
__CPROVER_loop_invariant(g < _i_row ==> (minX <= regions[g].minX && maxX >= regions[g].maxX && minY <= regions[g].minY && maxY >= regions[g].maxY))
__CPROVER_decreases(regions_size - _i_row)
'''
@*/
#endif

#ifdef H_BLENDSC
/* the two shortcuts at the head of blendPlacement (text sliced from the repo): which vector is returned without blending */
int g_short;   /* 0 = falls through to the element-wise blend, 1 = returns v1, 2 = returns v2 */
void blend_shortcuts(int v1, int v2, float blending)
__CPROVER_requires(v1 == 1 && v2 == 2 && g_short == 0 && !isnan(blending))
/* C06: the export is the documented blend for EVERY accepted weight: the shortcuts apply only where the blend equals one operand exactly */
__CPROVER_ensures(g_short == (blending == 0.0f ? 1 : (blending == 1.0f ? 2 : 0)))
__CPROVER_assigns(g_short)
/*@extract
file = "src/place_global/place_global.cpp"
head = 'std::vector<float> blendPlacement\(const std::vector<float> &v1,'
slice_to = 'std::vector<float> ret;'
rewrites = [['return (v1|v2);', '{ g_short = \1; return; }', '2']]
@*/
#endif

#ifdef H_BLEND
float g_out;
#define VEC_PUSH_BACK_B(x) do { g_out = (x); } while (0)
/* one element of blendPlacement's loop (statement sliced from the repo) */
float g_v1, g_v2;
#define v1 (&g_v1)
#define v2 (&g_v2)
void blend_step(int i, float blending)
__CPROVER_requires(i == 0)
__CPROVER_requires(!isnan(v1[0]) && v1[0] >= -16777216.0f && v1[0] <= 16777216.0f && !isnan(v2[0]) && v2[0] >= -16777216.0f && v2[0] <= 16777216.0f && blending >= -0.5f && blending <= 1.5f)
/* C06: the exported coordinate is the documented blend (weight `blending` on the second placement) and is finite */
__CPROVER_ensures(g_out == (1.0f - blending) * v1[0] + blending * v2[0] && !isnan(g_out) && !isinf(g_out) && g_out >= -50331648.0f && g_out <= 50331648.0f)
__CPROVER_assigns(g_out)
/*@extract
file = "src/place_global/place_global.cpp"
head = 'std::vector<float> blendPlacement\(const std::vector<float> &v1,'
slice_from = 'ret\.push_back\(\(1\.0f - blending\)'
slice_to = '\}\s*return ret;\s*\}\s*$'
rewrites = [['ret\.push_back\(', 'VEC_PUSH_BACK_B(', '1']]
@*/
#endif

void harness(void) {
  int a, b, c;
#if defined(H_SUBDIV)
  computeSubdivisions(a, b, c);
#elif defined(H_FINDX)
  HDP *h; HDP_findBinByX(h, a);
#elif defined(H_FINDY)
  HDP *h; HDP_findBinByY(h, a);
#elif defined(H_DEMANDS)
  Circuit *ci; HDP_demands(ci);
#elif defined(H_CAREA)
  Circuit *ci; area_accessor(ci, a);
#elif defined(H_CLIP)
  Row *r; DensityGrid_clipRows(r, a, b);
#elif defined(H_CONTRIB)
  Rectangle r1, r2; bin_contribution(r1, r2);
#elif defined(H_AREA)
  Rectangle *rs; DensityGrid_computePlacementArea(rs, a);
#elif defined(H_BLENDSC)
  float bl; blend_shortcuts(a, b, bl);
#else
  float bl; blend_step(a, bl);
#endif
  REACH("end");
}
