/*@unit
properties = ["C16"]
mode = "dfcc"
enforce = "DensityLegalizer_reoptimize_collect"
timeout = 300
function = "DensityLegalizer::reoptimize (collection of the candidate bins' cells, early exit, emptying of the bins; sliced before the transportation problem) (density_legalizer.cpp)"
assumptions = ["abstract state: binCells_[x][y] is represented by its length (ghost array), the local vectors cells/assignment/bins by their lengths; candidate bins are distinct bins of the grid (instantiated)",
               "the redistribution itself (transportation problem, setBinCells) is not under contract: what is proved is that a bin is emptied only after its cells were collected, that every candidate bin is emptied exactly when the redistribution goes ahead, and that nothing is emptied when the function returns early"]
@*/
#include "lower.h"
int verif_exc;
#define XM 8
#define NMAX 64
typedef struct { int dummy; } DensityLegalizer;
int g_cnt[XM][XM];        /* ghost: number of cells in each bin */
long long g_cap[XM][XM];  /* ghost: bin capacities */
int g_gx, g_gy;           /* ghost candidate bin */
bool g_collected, g_cleared_ghost, g_fell_through; int g_cleared;
int g_cnt0;
#define binCapacity(x, y) (g_cap[x][y])
#define COLLECT_BIN(x, y) do { cells_size += g_cnt[x][y]; assignment_size += g_cnt[x][y]; if ((x) == g_gx && (y) == g_gy) g_collected = 1; } while (0)
#define CLEAR_BIN(x, y) do { __CPROVER_assert(!((x) == g_gx && (y) == g_gy) || g_collected, "spec C16: a bin is emptied only after its cells were collected for redistribution"); g_cnt[x][y] = 0; g_cleared++; if ((x) == g_gx && (y) == g_gy) g_cleared_ghost = 1; } while (0)
typedef struct { int first; int second; } PairII;
int g_k;   /* position of the ghost bin among the candidates */
void DensityLegalizer_reoptimize_collect(DensityLegalizer *this, const PairII *binCandidates, int binCandidates_size)
__CPROVER_requires(3 <= binCandidates_size && binCandidates_size <= NMAX && __CPROVER_is_fresh(binCandidates, binCandidates_size * sizeof(PairII)))
__CPROVER_requires(0 <= g_k && g_k < binCandidates_size && binCandidates[g_k].first == g_gx && binCandidates[g_k].second == g_gy && 0 <= g_gx && g_gx < XM && 0 <= g_gy && g_gy < XM)
__CPROVER_requires(!g_collected && !g_cleared_ghost && !g_fell_through && g_cleared == 0 && g_cnt0 == g_cnt[g_gx][g_gy] && 0 <= g_cnt0 && g_cnt0 <= 100000)
/* C16: when the function gives up early, no bin lost its cells; when it goes ahead, every candidate bin was collected and then emptied */
__CPROVER_ensures(!g_fell_through ==> (g_cleared == 0 && g_cnt[g_gx][g_gy] == g_cnt0))
__CPROVER_ensures(g_fell_through ==> (g_collected && g_cleared_ghost && g_cnt[g_gx][g_gy] == 0))
__CPROVER_assigns(__CPROVER_object_whole(g_cnt), g_collected, g_cleared_ghost, g_fell_through, g_cleared)
/*@extract
file = "src/place_global/density_legalizer.cpp"
head = 'void DensityLegalizer::reoptimize\('
slice_from = 'std::vector<int> cells;'
slice_to = 'if \(bins\.size\(\) == 1\) \{'
rewrites = [['std::vector<int> cells;\s*std::vector<int> assignment;\s*std::vector<std::pair<int, int>\s*> bins;', 'int cells_size = 0; int assignment_size = 0; int bins_size = 0;', '1'],
            ['bins\.emplace_back\(x, y\);', 'bins_size++;', '1+'],
            ['for \(int c : binCells_\[x\]\[y\]\) \{\s*cells\.push_back\(c\);\s*assignment\.push_back\(binCnt\);\s*\}', 'COLLECT_BIN(x, y);', '1+'],
            ['binCells_\[x\]\[y\]\.clear\(\);', 'CLEAR_BIN(x, y);', '1+']]
[[loops]]
ordinal = 1
contract = '''
__CPROVER_assigns(_i_binCandidates0, bins_size, cells_size, assignment_size, g_collected, __CPROVER_object_whole(g_cnt), g_cleared, g_cleared_ghost)
__CPROVER_loop_invariant(0 <= _i_binCandidates0 && _i_binCandidates0 <= binCandidates_size && 0 <= bins_size && bins_size <= _i_binCandidates0 && 0 <= cells_size && cells_size <= _i_binCandidates0 * 100000 && assignment_size == cells_size)
__CPROVER_loop_invariant(g_k < _i_binCandidates0 ==> g_collected)
__CPROVER_loop_invariant(g_cleared == 0 && !g_cleared_ghost && g_cnt[g_gx][g_gy] == g_cnt0)
__CPROVER_loop_invariant(cells_size == 0 ==> (g_k >= _i_binCandidates0 || g_cnt0 == 0))
__CPROVER_decreases(binCandidates_size - _i_binCandidates0)
'''
[[loops]]
ordinal = 2
optional = true
contract = '''
__CPROVER_assigns(_i_binCandidates1, __CPROVER_object_whole(g_cnt), g_cleared, g_cleared_ghost)
__CPROVER_loop_invariant(0 <= _i_binCandidates1 && _i_binCandidates1 <= binCandidates_size && g_cleared == _i_binCandidates1)
__CPROVER_loop_invariant(g_k < _i_binCandidates1 ==> (g_cleared_ghost && g_cnt[g_gx][g_gy] == 0))
__CPROVER_loop_invariant(g_k >= _i_binCandidates1 ==> g_cnt[g_gx][g_gy] == g_cnt0)
__CPROVER_decreases(binCandidates_size - _i_binCandidates1)
'''
[[ghosts]]
after = 'int y = binCandidates\[_i_binCandidates0\]\.second;'
text = '''__CPROVER_assume(0 <= x && x < XM && 0 <= y && y < XM && ((x == g_gx && y == g_gy) == (_i_binCandidates0 == g_k)) && 0 <= g_cnt[x][y] && g_cnt[x][y] <= 100000); /* INSTANTIATE: candidates are distinct bins of the grid */'''
[[ghosts]]
optional = true
after = 'int y = binCandidates\[_i_binCandidates1\]\.second;'
text = '''__CPROVER_assume(0 <= x && x < XM && 0 <= y && y < XM && ((x == g_gx && y == g_gy) == (_i_binCandidates1 == g_k))); /* INSTANTIATE: candidates are distinct bins of the grid */'''
[[ghosts]]
at = 'end'
text = '''g_fell_through = 1;'''
@*/

void harness(void) { DensityLegalizer *t; PairII *c; int k; DensityLegalizer_reoptimize_collect(t, c, k); REACH("end"); }
