/*@unit
properties = ["C06"]
mode = "dfcc"
enforce = "GlobalPlacer_exportPlacement0"
loop_contracts = false
timeout = 120
function = "GlobalPlacer::exportPlacement(Circuit&) const (place_global.cpp): the returned placement is the blend of the last lower-bound and last upper-bound placements with weight exportBlending on the upper bound"
replace = ["blendPlacement", "GlobalPlacer_exportPlacement2"]
assumptions = ["vectors are handles (identity of the member vectors is what is checked); blendPlacement's element formula and the rounding of the export are units c16_density.blend and c03_exports.global"]
@*/
#include "lower.h"
int verif_exc;
typedef struct { int id; } VecF;   /* handle of a vector<float> */
typedef struct { struct { struct { float exportBlending; } global; } params_; VecF xPlacementLB_, xPlacementUB_, yPlacementLB_, yPlacementUB_; } GlobalPlacer;
typedef struct Circuit Circuit;
int g_calls; VecF g_a[2], g_b[2]; float g_w[2]; VecF g_res[2];
VecF blendPlacement(VecF v1, VecF v2, float blending)
__CPROVER_requires(g_calls < 2)
__CPROVER_ensures(g_calls == __CPROVER_old(g_calls) + 1 && g_a[__CPROVER_old(g_calls)].id == v1.id && g_b[__CPROVER_old(g_calls)].id == v2.id && g_w[__CPROVER_old(g_calls)] == blending && __CPROVER_return_value.id == 100 + __CPROVER_old(g_calls) && g_res[__CPROVER_old(g_calls)].id == 100 + __CPROVER_old(g_calls))
__CPROVER_assigns(g_calls, g_a[g_calls], g_b[g_calls], g_w[g_calls], g_res[g_calls]);
VecF g_ex, g_ey; int g_exports;
void GlobalPlacer_exportPlacement2(Circuit *circuit_p, VecF xplace, VecF yplace)
__CPROVER_requires(1)
__CPROVER_ensures(g_ex.id == xplace.id && g_ey.id == yplace.id && g_exports == __CPROVER_old(g_exports) + 1)
__CPROVER_assigns(g_ex, g_ey, g_exports);
void GlobalPlacer_exportPlacement0(const GlobalPlacer *this, Circuit *circuit_p)
__CPROVER_requires(__CPROVER_is_fresh(this, sizeof(*this)) && g_calls == 0 && g_exports == 0)
__CPROVER_requires(this->xPlacementLB_.id == 1 && this->xPlacementUB_.id == 2 && this->yPlacementLB_.id == 3 && this->yPlacementUB_.id == 4)
/* C06: x = blend(LB_x, UB_x, exportBlending), y = blend(LB_y, UB_y, exportBlending) (weight on the upper bound), exported once */
__CPROVER_ensures(g_calls == 2 && g_exports == 1)
__CPROVER_ensures(g_a[0].id == 1 && g_b[0].id == 2 && g_w[0] == this->params_.global.exportBlending && g_a[1].id == 3 && g_b[1].id == 4 && g_w[1] == this->params_.global.exportBlending)
__CPROVER_ensures(g_ex.id == g_res[0].id && g_ey.id == g_res[1].id)
__CPROVER_assigns(g_calls, __CPROVER_object_whole(g_a), __CPROVER_object_whole(g_b), __CPROVER_object_whole(g_w), __CPROVER_object_whole(g_res), g_ex, g_ey, g_exports)
/*@extract
file = "src/place_global/place_global.cpp"
head = 'void GlobalPlacer::exportPlacement\(Circuit &circuit\) const'
drop = [['assert\([^;]*\);', '*']]
rewrites = [['std::vector<float> (\w+) = blendPlacement\(', 'VecF \1 = blendPlacement(', '2'], ['\bexportPlacement\(circuit, ', 'GlobalPlacer_exportPlacement2(circuit_p, ', '1+'],
            ['(?<![\w.>])(params_|xPlacementLB_|xPlacementUB_|yPlacementLB_|yPlacementUB_)\b', 'this->\1', '5+']]
@*/
void harness(void) { GlobalPlacer *g; Circuit *c; GlobalPlacer_exportPlacement0(g, c); REACH("end"); }
