/*@unit
properties = ["C05"]
mode = "dfcc"
enforce = "RowReordering_run"
timeout = 120
function = "RowReordering::run (initial best value) and the leaf of RowReordering::runOrdering (candidate acceptance) (place_detailed.cpp): a candidate replaces the kept best only if its TOTAL wirelength (x model + y model) is strictly smaller, and the search starts from the total wirelength of the current placement"
variants = [
  {name = "run", enforce = "RowReordering_run", defines = ["H_RUN"]},
  {name = "leaf", enforce = "reordering_leaf", defines = ["H_LEAF"]},
]
assumptions = ["xtopo_.value() / ytopo_.value() are ghost scalars (their exactness: units c09_*); std::sort of the cell list, runRegionChoice and writeback are recorded calls (runRegionChoice: unit c02_reordering); vector copies of the best order / positions are recorded by ghost flags",
               "that the value kept in bestVal_ is the value of the placement written back rests on writeback() and on the enumeration restoring the models, which are not under contract"]
@*/
#include "lower.h"
int verif_exc;
typedef struct { long long bestVal_; bool improvement_; int cells__size; } RowReordering;
long long g_xv, g_yv;            /* ghost: current values of the two incremental models */
#define XVALUE() (g_xv)
#define YVALUE() (g_yv)
#define VMAGN(v) ((v) >= 0 && (v) <= (1LL << 60))
int g_calls; long long g_best_at_search; int g_search_at, g_writeback_at, g_sorted_at;
#define SORT_CELLS() do { g_sorted_at = ++g_calls; } while (0)
#define RUN_REGION_CHOICE(arg) do { g_search_at = ++g_calls; g_best_at_search = this->bestVal_; } while (0)
#define WRITEBACK() do { g_writeback_at = ++g_calls; } while (0)
bool g_saved_order, g_saved_pos;

#ifdef H_RUN
void RowReordering_run(RowReordering *this)
__CPROVER_requires(__CPROVER_is_fresh(this, sizeof(*this)) && VMAGN(g_xv) && VMAGN(g_yv) && g_calls == 0 && g_search_at == 0 && g_writeback_at == 0 && 0 <= this->cells__size && this->cells__size <= 64)
/* C05: the search starts from the TOTAL wirelength of the placement at hand, and the result is written back after the search */
__CPROVER_ensures(g_best_at_search == g_xv + g_yv && 0 < g_search_at && g_search_at < g_writeback_at)
__CPROVER_assigns(this->bestVal_, g_calls, g_best_at_search, g_search_at, g_writeback_at, g_sorted_at)
/*@extract
file = "src/place_detailed/place_detailed.cpp"
head = 'void RowReordering::run\(\)'
rewrites = [['std::sort\(cells_\.begin\(\), cells_\.end\(\)[^;]*\);', 'SORT_CELLS();', '*'],
            ['(?<![\w.>])runRegionChoice\(([^;]*)\);', 'RUN_REGION_CHOICE(\1);', '1+'], ['(?<![\w.>])writeback\(\);', 'WRITEBACK();', '1+'],
            ['\bxtopo_\.value\(\)', 'XVALUE()', '*'], ['\bytopo_\.value\(\)', 'YVALUE()', '*'],
            ['(?<![\w.>])(bestVal_|improvement_)\b', 'this->\1', '1+'], ['\bcells_\.size\(\)', 'this->cells__size', '*']]
@*/
void harness(void) { RowReordering *r; RowReordering_run(r); REACH("end"); }
#endif

#ifdef H_LEAF
#define SAVE_ORDER() do { g_saved_order = 1; } while (0)
#define SAVE_POS() do { g_saved_pos = 1; } while (0)
void reordering_leaf(RowReordering *this, int rowInd)
__CPROVER_requires(__CPROVER_is_fresh(this, sizeof(*this)) && VMAGN(g_xv) && VMAGN(g_yv) && VMAGN(this->bestVal_) && rowInd < 0 && !g_saved_order && !g_saved_pos)
/* C05: the kept best never gets worse, and a candidate is kept exactly when its TOTAL wirelength is strictly smaller: then its order and positions are saved */
__CPROVER_ensures(this->bestVal_ <= __CPROVER_old(this->bestVal_))
__CPROVER_ensures(g_xv + g_yv < __CPROVER_old(this->bestVal_) ? (this->bestVal_ == g_xv + g_yv && this->improvement_ && g_saved_order && g_saved_pos) : (this->bestVal_ == __CPROVER_old(this->bestVal_) && this->improvement_ == __CPROVER_old(this->improvement_) && !g_saved_order && !g_saved_pos))
__CPROVER_assigns(this->bestVal_, this->improvement_, g_saved_order, g_saved_pos)
/*@extract
file = "src/place_detailed/place_detailed.cpp"
head = 'void RowReordering::runOrdering\(int rowInd\)'
slice_from_after = 'if \(rowInd < 0\) \{'
slice_to = '\} else \{\s*while \('
rewrites = [['\bxtopo_\.value\(\)', 'XVALUE()', '*'], ['\bytopo_\.value\(\)', 'YVALUE()', '*'],
            ['bestOrder_ = order_;', 'SAVE_ORDER();', '*'], ['bestPositions_ = positions_;', 'SAVE_POS();', '*'],
            ['(?<![\w.>])(bestVal_|improvement_)\b', 'this->\1', '1+']]
@*/
void harness(void) { RowReordering *r; int k; reordering_leaf(r, k); REACH("end"); }
#endif
