/*@unit
properties = ["C03", "C06", "C01", "C02", "C04"]
mode = "dfcc"
enforce = "Legalizer_exportPlacement"
timeout = 600
function = "Legalizer::exportPlacement, DetailedPlacement::exportPlacement, GlobalPlacer::exportPlacement(Circuit&, x, y): the only functions of the placement stages that write into a Circuit"
variants = [
  {name = "legalizer", properties = ["C03", "C01", "C04"], enforce = "Legalizer_exportPlacement", defines = ["H_LEG"]},
  {name = "detailed", properties = ["C03", "C02", "C04"], safety_tier = "thorough", enforce = "DetailedPlacement_exportPlacement", defines = ["H_DET"]},
  {name = "global", properties = ["C03", "C06"], safety_tier = "thorough", enforce = "GlobalPlacer_exportPlacement", defines = ["H_GLOB"], replace = ["Circuit_placedWidth", "Circuit_placedHeight"], solver = "kissat"},
]
assumptions = ["frame: the assigns clauses name only cellX_/cellY_/cellOrientation_ contents (global: only cellX_/cellY_), so a write to sizes, flags, polarities, nets, offsets, weights or rows inside these functions fails an assigns obligation; that no OTHER function of the stages writes a Circuit is the call-order unit (c10_order) plus const-correctness of the remaining code (compiler fact, not proved here)",
               "by-value copies of const vectors (cellLegalX() etc.) are lowered to aliases"]
[replay]
template = "replay/c03_stages.cpp"
search = true
inputs = []
@*/
#include "lower.h"
int verif_exc;
/*@include units/inc/circuit.inc @*/
/*@include units/inc/circuit_off.inc @*/
#define NMAX 4096
int n;
int g;            /* ghost cell of the circuit: arbitrary */
int g_oldx, g_oldy; CellOrientation g_oldo;

#ifdef H_LEG
/*@struct
file = "src/place_detailed/legalizer.hpp"
class = "LegalizerBase"
known = ["Row", "CellRowPolarity", "CellOrientation"]
need = ["cellToX_", "cellToY_", "cellToOrientation_", "cellIsPlaced_", "cellWidth_"]
@*/
static inline int LegalizerBase_nbCells(const LegalizerBase *this)
/*@extract
file = "src/place_detailed/legalizer.hpp"
within = 'class LegalizerBase\b'
head = 'int nbCells\(\) const'
this_members = {file = "src/place_detailed/legalizer.hpp", class = "LegalizerBase"}
@*/
static inline bool LegalizerBase_isPlaced(const LegalizerBase *this, int cell)
/*@extract
file = "src/place_detailed/legalizer.hpp"
within = 'class LegalizerBase\b'
head = 'bool isPlaced\(int cell\) const'
this_members = {file = "src/place_detailed/legalizer.hpp", class = "LegalizerBase"}
@*/
static inline int *LegalizerBase_cellLegalX(const LegalizerBase *this)
/*@extract
file = "src/place_detailed/legalizer.cpp"
head = 'const std::vector<int> &LegalizerBase::cellLegalX\(\) const'
this_members = {file = "src/place_detailed/legalizer.hpp", class = "LegalizerBase"}
@*/
static inline int *LegalizerBase_cellLegalY(const LegalizerBase *this)
/*@extract
file = "src/place_detailed/legalizer.cpp"
head = 'const std::vector<int> &LegalizerBase::cellLegalY\(\) const'
this_members = {file = "src/place_detailed/legalizer.hpp", class = "LegalizerBase"}
@*/
static inline CellOrientation *LegalizerBase_cellLegalOrientation(const LegalizerBase *this)
/*@extract
file = "src/place_detailed/legalizer.cpp"
head = 'const std::vector<CellOrientation> &LegalizerBase::cellLegalOrientation\(\)\s*const'
this_members = {file = "src/place_detailed/legalizer.hpp", class = "LegalizerBase"}
@*/
int nl;
void Legalizer_exportPlacement(LegalizerBase *this, Circuit *circuit_p)
__CPROVER_requires(verif_exc == 0 && 0 <= n && n <= NMAX && 0 <= nl && nl <= NMAX && __CPROVER_is_fresh(this, sizeof(*this)) && __CPROVER_is_fresh(circuit_p, sizeof(Circuit)))
__CPROVER_requires(CFRESH(circuit_p, cellWidth_, n, int) && CFRESH(circuit_p, cellX_, n, int) && CFRESH(circuit_p, cellY_, n, int) && CFRESH(circuit_p, cellOrientation_, n, CellOrientation) && CFRESH(circuit_p, cellIsFixed_, n, bool))
__CPROVER_requires(CFRESH(this, cellWidth_, nl, int) && CFRESH(this, cellToX_, nl, int) && CFRESH(this, cellToY_, nl, int) && CFRESH(this, cellToOrientation_, nl, CellOrientation) && CFRESH(this, cellIsPlaced_, nl, bool))
__CPROVER_requires(0 <= g && g < n && g_oldx == circuit_p->cellX_[g] && g_oldy == circuit_p->cellY_[g] && g_oldo == circuit_p->cellOrientation_[g])
/* C03: a fixed cell keeps position and orientation, whether the call returns or throws */
__CPROVER_ensures(circuit_p->cellIsFixed_[g] ==> (circuit_p->cellX_[g] == g_oldx && circuit_p->cellY_[g] == g_oldy && circuit_p->cellOrientation_[g] == g_oldo))
__CPROVER_assigns(verif_exc, __CPROVER_object_whole(circuit_p->cellX_), __CPROVER_object_whole(circuit_p->cellY_), __CPROVER_object_whole(circuit_p->cellOrientation_))
/*@extract
file = "src/place_detailed/legalizer.cpp"
head = 'void Legalizer::exportPlacement\(Circuit &circuit\)'
nloops = 1
rewrites = [['std::vector<int> (cellX|cellY) = (cellLegalX|cellLegalY)\(\);', 'int *\1 = LegalizerBase_\2(this);', '2'],
            ['std::vector<CellOrientation> cellOrient = cellLegalOrientation\(\);', 'CellOrientation *cellOrient = LegalizerBase_cellLegalOrientation(this);', '1'],
            ['\bcircuit\.nbCells\(\)', 'Circuit_nbCells(circuit_p)', '1+'], ['(?<![\w.])nbCells\(\)', 'LegalizerBase_nbCells(this)', '1+'], ['(?<![\w.])isPlaced\(', 'LegalizerBase_isPlaced(this, ', '1+']]
[[loops]]
ordinal = 1
contract = '''
__CPROVER_assigns(i, j, verif_exc, __CPROVER_object_whole(circuit_p->cellX_), __CPROVER_object_whole(circuit_p->cellY_), __CPROVER_object_whole(circuit_p->cellOrientation_))
__CPROVER_loop_invariant(0 <= i && i <= n && 0 <= j && j <= i && verif_exc == 0)
__CPROVER_loop_invariant((circuit_p->cellIsFixed_[g] || g >= i) ==> (circuit_p->cellX_[g] == g_oldx && circuit_p->cellY_[g] == g_oldy && circuit_p->cellOrientation_[g] == g_oldo))
__CPROVER_decreases(n - i)
'''
@*/
#endif

#ifdef H_DET
/*@struct
file = "src/place_detailed/detailed_placement.hpp"
class = "DetailedPlacement"
known = ["Row", "CellRowPolarity", "CellOrientation"]
need = ["cellX_", "cellY_", "cellOrientation_", "cellIndex_", "cellWidth_"]
@*/
int nd, g_i;   /* g_i: ghost cell of the detailed placement */
#define DP_ACC(ret, name) static inline ret DetailedPlacement_##name(const DetailedPlacement *this, int c)
static inline int DetailedPlacement_nbCells(const DetailedPlacement *this)
/*@extract
file = "src/place_detailed/detailed_placement.hpp"
within = 'class DetailedPlacement\b'
head = 'int nbCells\(\) const'
this_members = {file = "src/place_detailed/detailed_placement.hpp", class = "DetailedPlacement"}
@*/
#define nbCells() DetailedPlacement_nbCells(this)
DP_ACC(int, cellX)
/*@extract
file = "src/place_detailed/detailed_placement.hpp"
within = 'class DetailedPlacement\b'
head = 'int cellX\(int c\) const'
this_members = {file = "src/place_detailed/detailed_placement.hpp", class = "DetailedPlacement"}
@*/
DP_ACC(int, cellY)
/*@extract
file = "src/place_detailed/detailed_placement.hpp"
within = 'class DetailedPlacement\b'
head = 'int cellY\(int c\) const'
this_members = {file = "src/place_detailed/detailed_placement.hpp", class = "DetailedPlacement"}
@*/
DP_ACC(CellOrientation, cellOrientation)
/*@extract
file = "src/place_detailed/detailed_placement.hpp"
within = 'class DetailedPlacement\b'
head = 'CellOrientation cellOrientation\(int c\) const'
this_members = {file = "src/place_detailed/detailed_placement.hpp", class = "DetailedPlacement"}
@*/
static inline bool DetailedPlacement_isIgnored(const DetailedPlacement *this, int cell)
/*@extract
file = "src/place_detailed/detailed_placement.hpp"
within = 'class DetailedPlacement\b'
head = 'bool isIgnored\(int cell\) const'
this_members = {file = "src/place_detailed/detailed_placement.hpp", class = "DetailedPlacement"}
@*/
/* the polarity of a placement cell is not needed by the repository text; if an edited body reads it, it is an arbitrary value */
CellRowPolarity nondet_polarity(void);
#define DetailedPlacement_cellRowPolarity(t, c) (nondet_polarity())
int g_d, g_dc;   /* ghost cell of the detailed placement and the circuit cell it stands for */
void DetailedPlacement_exportPlacement(DetailedPlacement *this, Circuit *circuit_p)
__CPROVER_requires(verif_exc == 0 && 0 <= n && n <= NMAX && 0 <= nd && nd <= NMAX && __CPROVER_is_fresh(this, sizeof(*this)) && __CPROVER_is_fresh(circuit_p, sizeof(Circuit)))
__CPROVER_requires(CFRESH(circuit_p, cellWidth_, n, int) && CFRESH(circuit_p, cellX_, n, int) && CFRESH(circuit_p, cellY_, n, int) && CFRESH(circuit_p, cellOrientation_, n, CellOrientation) && CFRESH(circuit_p, cellIsFixed_, n, bool))
__CPROVER_requires(CFRESH(this, cellWidth_, nd, int) && CFRESH(this, cellX_, nd, int) && CFRESH(this, cellY_, nd, int) && CFRESH(this, cellOrientation_, nd, CellOrientation) && CFRESH(this, cellIndex_, nd, int))
__CPROVER_requires(0 <= g && g < n && g_oldx == circuit_p->cellX_[g] && g_oldy == circuit_p->cellY_[g] && g_oldo == circuit_p->cellOrientation_[g])
__CPROVER_requires(0 <= g_d && (nd == 0 || (g_d < nd && g_dc == this->cellIndex_[g_d] && (g_dc == g || g_dc == -1))))   /* the ghost placement cell stands for the ghost circuit cell, or for none */
__CPROVER_ensures(circuit_p->cellIsFixed_[g] ==> (circuit_p->cellX_[g] == g_oldx && circuit_p->cellY_[g] == g_oldy && circuit_p->cellOrientation_[g] == g_oldo))
/* C02/C04: what detailed placement exposes for a movable cell is exactly its state in the placement: position AND orientation */
__CPROVER_ensures((0 <= g_d && g_d < nd && g_dc == g && !circuit_p->cellIsFixed_[g]) ==> (circuit_p->cellX_[g] == this->cellX_[g_d] && circuit_p->cellY_[g] == this->cellY_[g_d] && circuit_p->cellOrientation_[g] == this->cellOrientation_[g_d]))
__CPROVER_assigns(verif_exc, __CPROVER_object_whole(circuit_p->cellX_), __CPROVER_object_whole(circuit_p->cellY_), __CPROVER_object_whole(circuit_p->cellOrientation_))
/*@extract
file = "src/place_detailed/detailed_placement.cpp"
head = 'void DetailedPlacement::exportPlacement\(Circuit &circuit\)'
nloops = 1
this_members = {file = "src/place_detailed/detailed_placement.hpp", class = "DetailedPlacement"}
rewrites = [['\bcircuit\.isFixed\(', 'Circuit_isFixed(circuit_p, ', '*'], ['(?<![\w.>])isIgnored\(', 'DetailedPlacement_isIgnored(this, ', '*'], ['= cellX\(', '= DetailedPlacement_cellX(this, ', '1'], ['= cellY\(', '= DetailedPlacement_cellY(this, ', '1'], ['= cellRowPolarity\(', '= DetailedPlacement_cellRowPolarity(this, ', '*'], ['= cellOrientation\(', '= DetailedPlacement_cellOrientation(this, ', '1']]
[[loops]]
ordinal = 1
contract = '''
__CPROVER_assigns(i, __CPROVER_object_whole(circuit_p->cellX_), __CPROVER_object_whole(circuit_p->cellY_), __CPROVER_object_whole(circuit_p->cellOrientation_))
__CPROVER_loop_invariant(0 <= i && i <= nd)
__CPROVER_loop_invariant(circuit_p->cellIsFixed_[g] ==> (circuit_p->cellX_[g] == g_oldx && circuit_p->cellY_[g] == g_oldy && circuit_p->cellOrientation_[g] == g_oldo))
__CPROVER_loop_invariant((0 <= g_d && g_d < i && g_dc == g && !circuit_p->cellIsFixed_[g]) ==> (circuit_p->cellX_[g] == this->cellX_[g_d] && circuit_p->cellY_[g] == this->cellY_[g_d] && circuit_p->cellOrientation_[g] == this->cellOrientation_[g_d]))
__CPROVER_decreases(nd - i)
'''
[[ghosts]]
after = 'int cell = this->cellIndex_\[i\];'
text = '''__CPROVER_assume(cell < n && (i == g_d || g_dc != g || cell != g)); /* INSTANTIATE cellIndex_in_range(i) and injectivity of cellIndex_ on real cells: established by DetailedPlacement::fromIspdCircuit (indices 0..nbCells-1, each once, or -1) */'''
@*/
#undef nbCells
#endif

#ifdef H_GLOB
int *g_pw, *g_ph;  /* ghost: placed width/height per cell (their correctness: unit c09_pin_offsets) */
int Circuit_placedWidth(const Circuit *circuit_p, int cell)
__CPROVER_requires(0 <= cell && cell < n)
__CPROVER_ensures(__CPROVER_return_value == g_pw[cell])
__CPROVER_assigns();
int Circuit_placedHeight(const Circuit *circuit_p, int cell)
__CPROVER_requires(0 <= cell && cell < n)
__CPROVER_ensures(__CPROVER_return_value == g_ph[cell])
__CPROVER_assigns();
float g_xp, g_yp; int g_w, g_h;
void GlobalPlacer_exportPlacement(Circuit *circuit_p, const float *xplace, int xplace_size, const float *yplace, int yplace_size)
__CPROVER_requires(verif_exc == 0 && 0 <= n && n <= NMAX && __CPROVER_is_fresh(circuit_p, sizeof(Circuit)) && xplace_size == n && yplace_size == n)
__CPROVER_requires(CFRESH(circuit_p, cellWidth_, n, int) && CFRESH(circuit_p, cellX_, n, int) && CFRESH(circuit_p, cellY_, n, int) && CFRESH(circuit_p, cellIsFixed_, n, bool) && CFRESH(circuit_p, cellIsObstruction_, n, bool))
__CPROVER_requires(__CPROVER_is_fresh(xplace, n * sizeof(float)) && __CPROVER_is_fresh(yplace, n * sizeof(float)) && __CPROVER_is_fresh(g_pw, n * sizeof(int)) && __CPROVER_is_fresh(g_ph, n * sizeof(int)))
__CPROVER_requires(0 <= g && g < n && g_oldx == circuit_p->cellX_[g] && g_oldy == circuit_p->cellY_[g])
__CPROVER_requires(g_xp == xplace[g] && g_yp == yplace[g] && g_w == g_pw[g] && g_h == g_ph[g] && MAGSZ(g_w) && MAGSZ(g_h))
/* C06: no exposed coordinate is non-finite or overflowed: for finite centres up to 2^24 the conversion to int is defined */
__CPROVER_requires(!isnan(g_xp) && g_xp >= -16777216.0f && g_xp <= 16777216.0f && !isnan(g_yp) && g_yp >= -16777216.0f && g_yp <= 16777216.0f)
/* C03: fixed cells untouched; global placement leaves every orientation unchanged (orientation is not in the frame) */
__CPROVER_ensures(circuit_p->cellIsFixed_[g] ==> (circuit_p->cellX_[g] == g_oldx && circuit_p->cellY_[g] == g_oldy))
/* C06: a movable cell's lower-left corner is its centre minus half its placed size, rounded */
__CPROVER_ensures(!circuit_p->cellIsFixed_[g] ==> (circuit_p->cellX_[g] == (int)round(g_xp - 0.5 * g_w) && circuit_p->cellY_[g] == (int)round(g_yp - 0.5 * g_h)))
__CPROVER_assigns(__CPROVER_object_whole(circuit_p->cellX_), __CPROVER_object_whole(circuit_p->cellY_))
/*@extract
file = "src/place_global/place_global.cpp"
head = 'void GlobalPlacer::exportPlacement\(Circuit &circuit,\s*const std::vector<float> &xplace,'
nloops = 1
rewrites = [['\bcircuit\.nbCells\(\)', 'Circuit_nbCells(circuit_p)', '1+'], ['\bcircuit\.(isFixed|isObstruction|placedWidth|placedHeight|x|y|width|height|orientation)\(', 'Circuit_\1(circuit_p, ', '1+']]
[[loops]]
ordinal = 1
contract = '''
__CPROVER_assigns(i, __CPROVER_object_whole(circuit_p->cellX_), __CPROVER_object_whole(circuit_p->cellY_))
__CPROVER_loop_invariant(0 <= i && i <= n)
__CPROVER_loop_invariant((circuit_p->cellIsFixed_[g] || g >= i) ==> (circuit_p->cellX_[g] == g_oldx && circuit_p->cellY_[g] == g_oldy))
__CPROVER_loop_invariant((!circuit_p->cellIsFixed_[g] && g < i) ==> (circuit_p->cellX_[g] == g_ex && circuit_p->cellY_[g] == g_ey))
__CPROVER_decreases(n - i)
'''
[[ghosts]]
at = 'before:1'
text = '''GHOST(const int g_ex = (int)round(g_xp - 0.5 * g_w); const int g_ey = (int)round(g_yp - 0.5 * g_h);)'''
[[ghosts]]
at = 'body_start:1'
text = '''GHOST(const float g_vx = xplace[i]; const float g_vy = yplace[i]; const int g_vw = g_pw[i]; const int g_vh = g_ph[i];) __CPROVER_assume(!isnan(g_vx) && g_vx >= -16777216.0f && g_vx <= 16777216.0f && !isnan(g_vy) && g_vy >= -16777216.0f && g_vy <= 16777216.0f && MAGSZ(g_vw) && MAGSZ(g_vh)); /* INSTANTIATE finite(i): C06 domain */'''
@*/
#endif

void harness(void) {
  Circuit *c; float *xs, *ys; int a, b;
#if defined(H_LEG)
  LegalizerBase *l; Legalizer_exportPlacement(l, c);
#elif defined(H_DET)
  DetailedPlacement *d; DetailedPlacement_exportPlacement(d, c);
#else
  GlobalPlacer_exportPlacement(c, xs, a, ys, b);
#endif
  REACH("end");
}
