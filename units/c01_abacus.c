/*@unit
properties = ["C01", "C04", "C11"]
mode = "dfcc"
enforce = "Abacus_placeCell"
timeout = 600
function = "AbacusLegalizer::placeCell (row search with the [&] lambda inlined), AbacusLegalizer::run (write-back of positions and orientations) (abacus_legalizer.cpp)"
variants = [
  {name = "placeCell", enforce = "Abacus_placeCell", defines = ["H_PLACE"], replace = ["LegalizerBase_closestRow", "Abacus_evaluatePlacement", "Abacus_pushRow"]},
  {name = "runWriteback", enforce = "Abacus_runWriteback", defines = ["H_RUN"], replace = ["LegalizerBase_getOrientation"]},
]
assumptions = ["evaluatePlacement is replaced by an oracle (ok[row], cost[row]) - its own accept/refuse contract is unit c01_legalizer.evaluate; RowLegalizer::push and rowToCells_[row].push_back are recorded as 'the cell was pushed into row r'; the vertical distance norm(0, dy, L1) is |dy|",
               "run(): the positions written back are the row legalizer's placement (getPlacement itself is not under contract); nested vector rowToCells_ modelled as in c01_legalizer.abacusCheck"]
[replay]
template = "replay/c01_legalize_history.cpp"
search = true
inputs = []
@*/
#include "lower.h"
int verif_exc;
/*@include units/inc/circuit.inc @*/
/*@include units/inc/circuit_off.inc @*/
#undef circuit
#define NMAX 1000
#define RMAX 64
/*@struct
file = "src/place_detailed/legalizer.hpp"
class = "LegalizerBase"
known = ["Row", "CellRowPolarity", "CellOrientation"]
need = ["rows_", "cellWidth_", "cellHeight_", "cellTargetX_", "cellTargetY_", "cellToX_", "cellToY_", "cellToOrientation_", "cellIsPlaced_"]
@*/
typedef struct { LegalizerBase base; } AbacusLegalizer;
int n, m;
#define nbRows() (this->rows__size)
#define nbCells() (this->cellWidth__size)

#ifdef H_PLACE
bool *g_ok; long long *g_cost;   /* oracle of evaluatePlacement per row */
bool *g_hmatch;                   /* ghost: row r has the height of the cell (instantiated from the row geometry at the loop index) */
int g_row;                        /* ghost row */
int g_pushed_row, g_pushes;
int LegalizerBase_closestRow(const LegalizerBase *this, int y)
__CPROVER_requires(1) __CPROVER_ensures(0 <= __CPROVER_return_value && __CPROVER_return_value < m) __CPROVER_assigns();
Pair_bool_longlong Abacus_evaluatePlacement(AbacusLegalizer *self, int cell, int row)
__CPROVER_requires(0 <= row && row < m)
__CPROVER_ensures(__CPROVER_return_value.first == g_ok[row] && __CPROVER_return_value.second == g_cost[row])
__CPROVER_assigns();
void Abacus_pushRow(AbacusLegalizer *self, int row, int cell)
__CPROVER_requires(0 <= row && row < m && g_ok[row])   /* a cell is pushed only into a row that accepted it (precondition of RowLegalizer::push) */
__CPROVER_ensures(g_pushed_row == row && g_pushes == __CPROVER_old(g_pushes) + 1)
__CPROVER_assigns(g_pushed_row, g_pushes);
#define closestRow(y) LegalizerBase_closestRow(this, y)
#define norm(a, b, c) ((long long)std_abs(b))
void Abacus_placeCell(AbacusLegalizer *self, int cell)
__CPROVER_requires(__CPROVER_is_fresh(self, sizeof(*self)) && 1 <= n && n <= NMAX && 1 <= m && m <= RMAX && 0 <= cell && cell < n && g_pushes == 0 && self->base.rows__size == m && self->base.cellWidth__size == n)
__CPROVER_requires(CFRESH(&self->base, cellWidth_, n, int) && CFRESH(&self->base, cellHeight_, n, int) && CFRESH(&self->base, cellTargetX_, n, int) && CFRESH(&self->base, cellTargetY_, n, int) && CFRESH(&self->base, cellIsPlaced_, n, bool) && CFRESH(&self->base, rows_, m, Row))
__CPROVER_requires(__CPROVER_is_fresh(g_ok, m * sizeof(bool)) && __CPROVER_is_fresh(g_cost, m * sizeof(long long)) && __CPROVER_is_fresh(g_hmatch, m * sizeof(bool)))
__CPROVER_requires(MAGV(self->base.cellTargetX_[cell]) && MAGV(self->base.cellTargetY_[cell]) && 1 <= self->base.cellWidth_[cell] && self->base.cellWidth_[cell] <= 4194304 && MAGSZ(self->base.cellHeight_[cell]) && !self->base.cellIsPlaced_[cell])
__CPROVER_requires(0 <= g_row && g_row < m && 0 <= g_cost[g_row] && g_cost[g_row] <= (1LL << 50))
/* C01 ('never fails when success is trivial') / C11: if ANY row of the right height accepts the cell, the cell is placed */
__CPROVER_ensures((g_ok[g_row] && g_hmatch[g_row]) ==> self->base.cellIsPlaced_[cell])
/* and it is placed into a row of its own height that accepted it, exactly once */
__CPROVER_ensures(self->base.cellIsPlaced_[cell] ==> (g_pushes == 1 && 0 <= g_pushed_row && g_pushed_row < m && g_ok[g_pushed_row] && g_hmatch[g_pushed_row]))
__CPROVER_ensures(!self->base.cellIsPlaced_[cell] ==> g_pushes == 0)
__CPROVER_assigns(self->base.cellIsPlaced_[cell], g_pushed_row, g_pushes)
#define this (&self->base)
/*@extract
file = "src/place_detailed/abacus_legalizer.cpp"
head = 'void AbacusLegalizer::placeCell\(int cell\)'
this_members = {file = "src/place_detailed/legalizer.hpp", class = "LegalizerBase"}
nloops = 2
rewrites = [['\bevaluatePlacement\(', 'Abacus_evaluatePlacement(self, ', '1+'], ['rows_\[row\]\.height\(\)', 'Rectangle_height(rows_[row])', '1+'], ['LegalizationModel::L1', '0', '*'],
            ['rowLegalizers_\[bestRow\]\.push\([^;]*\);\s*rowToCells_\[bestRow\]\.push_back\(cell\);', 'Abacus_pushRow(self, bestRow, cell);', '1']]
[[loops]]
ordinal = 1
contract = '''
__CPROVER_assigns(row, bestRow, bestDist)
__CPROVER_loop_invariant(g_init <= row && row <= m && -1 <= bestRow && bestRow < m)
__CPROVER_loop_invariant(bestRow != -1 ==> (g_ok[bestRow] && g_hmatch[bestRow] && 0 <= bestDist))
__CPROVER_loop_invariant((g_init <= g_row && g_row < row && g_ok[g_row] && g_hmatch[g_row]) ==> bestRow != -1)
__CPROVER_decreases(m - row)
'''
[[loops]]
ordinal = 2
contract = '''
__CPROVER_assigns(row, bestRow, bestDist)
__CPROVER_loop_invariant(-1 <= row && row < g_init && -1 <= bestRow && bestRow < m)
__CPROVER_loop_invariant(bestRow != -1 ==> (g_ok[bestRow] && g_hmatch[bestRow] && 0 <= bestDist))
__CPROVER_loop_invariant(((g_row >= g_init || g_row > row) && g_ok[g_row] && g_hmatch[g_row]) ==> bestRow != -1)
__CPROVER_decreases(row + 1)
'''
[[ghosts]]
at = 'before:1'
text = '''GHOST(const int g_init = initialRow;)'''
[[ghosts]]
at = 'body_start:1'
text = '''GHOST(const int g_ry = this->rows_[row].minY; const int g_ry2 = this->rows_[row].maxY; const long long g_c = g_cost[row];) __CPROVER_assume(MAGV(g_ry) && MAGV(g_ry2) && 0 <= g_c && g_c <= (1LL << 50) && g_hmatch[row] == (g_ry2 - g_ry == this->cellHeight_[cell])); /* INSTANTIATE MAG(row); costs are non-negative (unit c12_row_legalizer) */'''
[[ghosts]]
at = 'body_start:2'
text = '''GHOST(const int g_ry3 = this->rows_[row].minY; const int g_ry4 = this->rows_[row].maxY; const long long g_c2 = g_cost[row];) __CPROVER_assume(MAGV(g_ry3) && MAGV(g_ry4) && 0 <= g_c2 && g_c2 <= (1LL << 50) && g_hmatch[row] == (g_ry4 - g_ry3 == this->cellHeight_[cell])); /* INSTANTIATE MAG(row) */'''
@*/
#undef this
#endif

#ifdef H_RUN
/* the write-back loops of run(): model of rowToCells_ / the per-row placement as in c01_legalizer.abacusCheck */
int g_r, g_pos, g_len, g_cell; int *g_rowcells; int *g_rowsize; int *g_pl; CellOrientation g_o;   /* g_o: the orientation getOrientation prescribes for the ghost cell on the ghost row */
int nondet_int(void);
static inline int ROWCELL(int i, int k) { if (i == g_r) return g_rowcells[k]; int c = nondet_int(); __CPROVER_assume(0 <= c && c < n); return c; }
static inline int ROWPL(int i, int k) { if (i == g_r) return g_pl[k]; return nondet_int(); }
CellOrientation LegalizerBase_getOrientation(const LegalizerBase *this, int cell, int row)
__CPROVER_requires(0 <= row && row < m && 0 <= cell && cell < n)
__CPROVER_ensures((cell == g_cell && row == g_r) ==> __CPROVER_return_value == g_o)
__CPROVER_assigns();
void Abacus_runWriteback(AbacusLegalizer *self)
__CPROVER_requires(__CPROVER_is_fresh(self, sizeof(*self)) && 1 <= n && n <= NMAX && 1 <= m && m <= RMAX && self->base.rows__size == m && self->base.cellWidth__size == n)
__CPROVER_requires(CFRESH(&self->base, cellToX_, n, int) && CFRESH(&self->base, cellToY_, n, int) && CFRESH(&self->base, cellToOrientation_, n, CellOrientation) && CFRESH(&self->base, rows_, m, Row))
__CPROVER_requires(__CPROVER_is_fresh(g_rowsize, m * sizeof(int)))
__CPROVER_requires(0 <= g_r && g_r < m && g_len == g_rowsize[g_r] && 0 <= g_len && g_len <= NMAX && __CPROVER_is_fresh(g_rowcells, g_len * sizeof(int)) && __CPROVER_is_fresh(g_pl, g_len * sizeof(int)))
__CPROVER_requires(0 <= g_pos && g_pos < g_len && g_cell == g_rowcells[g_pos] && 0 <= g_cell && g_cell < n)
/* C01/C04: every cell recorded in a row gets that row's y, the x the row legalizer computed for its position, and the orientation prescribed for THIS cell on THIS row */
__CPROVER_ensures(self->base.cellToY_[g_cell] == self->base.rows_[g_r].minY && self->base.cellToX_[g_cell] == g_pl[g_pos] && self->base.cellToOrientation_[g_cell] == g_o)
__CPROVER_assigns(__CPROVER_object_whole(self->base.cellToX_), __CPROVER_object_whole(self->base.cellToY_), __CPROVER_object_whole(self->base.cellToOrientation_))
#define this (&self->base)
/*@extract
file = "src/place_detailed/abacus_legalizer.cpp"
head = 'void AbacusLegalizer::run\(\)'
slice_from = 'for \(int i = 0; i < nbRows\(\); \+\+i\) \{'
slice_to = 'check\(\);\s*\}\s*$'
this_members = {file = "src/place_detailed/legalizer.hpp", class = "LegalizerBase"}
nloops = 2
rewrites = [['std::vector<int> pl = rowLegalizers_\[i\]\.getPlacement\(\);', 'const int pl_size = g_rowsize[i];', '1'], ['assert\(pl\.size\(\) == rowToCells_\[i\]\.size\(\)\);', '', '*'],
            ['size_t j = 0; j < pl\.size\(\)', 'int j = 0; j < pl_size', '1'], ['rowToCells_\[(\w+)\]\.front\(\)', 'ROWCELL(\1, 0)', '*'], ['rowToCells_\[(\w+)\]\.empty\(\)', '(g_rowsize[\1] == 0)', '*'], ['rowToCells_\[(\w+)\]\.size\(\)', 'g_rowsize[\1]', '*'], ['rowToCells_\[(\w+)\]\[([^\]]+)\]', 'ROWCELL(\1, \2)', '1+'], ['\bpl\[([^\]]+)\]', 'ROWPL(i, \1)', '1+'],
            ['(?<![\w.])getOrientation\(', 'LegalizerBase_getOrientation(this, ', '1+']]
[[loops]]
ordinal = 1
contract = '''
__CPROVER_assigns(i, __CPROVER_object_whole(this->cellToX_), __CPROVER_object_whole(this->cellToY_), __CPROVER_object_whole(this->cellToOrientation_))
__CPROVER_loop_invariant(0 <= i && i <= m)
__CPROVER_loop_invariant(g_r < i ==> (this->cellToY_[g_cell] == this->rows_[g_r].minY && this->cellToX_[g_cell] == g_pl[g_pos] && this->cellToOrientation_[g_cell] == g_o))
__CPROVER_decreases(m - i)
'''
[[loops]]
ordinal = 2
contract = '''
__CPROVER_assigns(j, __CPROVER_object_whole(this->cellToX_), __CPROVER_object_whole(this->cellToY_), __CPROVER_object_whole(this->cellToOrientation_))
__CPROVER_loop_invariant(0 <= j && j <= pl_size)
__CPROVER_loop_invariant(((i == g_r && g_pos < j) || g_r < i) ==> (this->cellToY_[g_cell] == this->rows_[g_r].minY && this->cellToX_[g_cell] == g_pl[g_pos] && this->cellToOrientation_[g_cell] == g_o))
__CPROVER_decreases(pl_size - j)
'''
[[ghosts]]
at = 'body_start:1'
text = '''__CPROVER_assume(0 <= g_rowsize[i] && g_rowsize[i] <= NMAX); /* INSTANTIATE row_list_length(i) */'''
[[ghosts]]
after = 'int cell = ROWCELL\(i, j\);'
text = '''__CPROVER_assume(0 <= cell && cell < n && ((i == g_r && j == g_pos) || cell != g_cell)); /* INSTANTIATE cells_in_range; a cell is recorded in one row at one position */'''
@*/
#undef this
#endif

void harness(void) {
  AbacusLegalizer *a; int c;
#if defined(H_PLACE)
  Abacus_placeCell(a, c);
#else
  Abacus_runWriteback(a);
#endif
  REACH("end");
}
