/*@unit
properties = ["C12", "C01", "C11"]
mode = "dfcc"
enforce = "RowLegalizer_getDisplacement"
timeout = 600
solver = "kissat"
function = "RowLegalizer::getDisplacement (row_legalizer.cpp), with std::priority_queue replaced by the abstract model prelude/pq_abs.h"
variants = [
  {name = "general", defines = ["H_GENERAL"]},
  {name = "noconflict", defines = ["H_NOCONFLICT"]},
]
assumptions = ["abstract state of RowLegalizer: begin_/end_ are the real members; cumWidth_.back() is 'used', the vectors are represented by their last element and length; std::priority_queue by prelude/pq_abs.h (over-approximation)",
               "re-pushing the popped bounds in query mode restores the queue (multiset identity of push after pop): modelled by restoring the ghost snapshot",
               "optimality of the placement (minimum total weighted displacement) and exactness of the cost sums are decided only natively by the history program replay/c12_row_bruteforce.cpp (exhaustive for segments <= 7, widths 1..3, up to 4 cells), not by contract: an unbounded proof needs the convexity invariant of the cascading descent"]
[replay]
template = "replay/c12_row_bruteforce.cpp"
search = true
inputs = []
sources = ["place_detailed/row_legalizer.cpp"]
@*/
#include "lower.h"
int verif_exc;
#include "pq_abs.h"
typedef struct { int n; } VecBound;
typedef struct {
  int begin_, end_;
  int used;               /* cumWidth_.back() */
  int nb;                 /* number of elements */
  PQ bounds;
  int last_constraining;  /* constrainingPos_.back() */
} RowLegalizer;
#define LIM (1 << 22)
PQ g_bounds0; int g_used0;
#define usedSpace() (this->used)
#define PQ_RESTORE() do { this->bounds = g_bounds0; } while (0)

long long RowLegalizer_getDisplacement(RowLegalizer *this, int width, int targetPos, bool update)
__CPROVER_requires(__CPROVER_is_fresh(this, sizeof(*this)))
__CPROVER_requires(-LIM <= this->begin_ && this->begin_ <= this->end_ && this->end_ <= LIM)
/* precondition established by the callers (AbacusLegalizer::evaluatePlacement tests remainingSpace() >= width) */
__CPROVER_requires(0 <= this->used && 1 <= width && width <= this->end_ - this->begin_ - this->used)
__CPROVER_requires(-2 * LIM <= targetPos && targetPos <= 2 * LIM)
__CPROVER_requires(this->nb >= 0 && this->nb <= (1 << 19) && PQ_WF(this->bounds, this->begin_, this->end_) && this->bounds.count <= 2 * this->nb && this->bounds.total <= 2LL * this->used)
__CPROVER_requires(g_bounds0.total == this->bounds.total && g_bounds0.count == this->bounds.count && g_bounds0.top.absolutePos == this->bounds.top.absolutePos && g_bounds0.top.weight == this->bounds.top.weight && g_bounds0.lo == this->bounds.lo && g_bounds0.hi == this->bounds.hi && g_used0 == this->used)
#ifdef H_NOCONFLICT
/* C11: no earlier cell wants to be to the right of the new cell, and the target fits */
__CPROVER_requires((this->bounds.count == 0 || this->bounds.top.absolutePos <= targetPos - this->used) && this->begin_ <= targetPos - this->used && targetPos - this->used <= this->end_ - this->used - width)
__CPROVER_ensures(__CPROVER_return_value == 0)
__CPROVER_ensures(update ==> this->last_constraining == targetPos - g_used0)
__CPROVER_ensures(update ==> (this->bounds.count == 0 || this->bounds.top.absolutePos <= targetPos - g_used0))
#endif
/* C12: costs are non-negative; C01/C12 (I_row): the new constraining position keeps the cell inside the segment */
__CPROVER_ensures(__CPROVER_return_value >= 0)
__CPROVER_ensures(update ==> (this->last_constraining >= this->begin_ && this->last_constraining <= this->end_ - this->used && this->used == g_used0 + width && this->nb == __CPROVER_old(this->nb) + 1))
__CPROVER_ensures(update ==> PQ_WF(this->bounds, this->begin_, this->end_))
__CPROVER_ensures(update ==> this->bounds.count <= 2 * this->nb)
__CPROVER_ensures(update ==> this->bounds.total <= 2LL * this->used)
/* C12: a cost query leaves the state unchanged */
__CPROVER_ensures(!update ==> (this->used == g_used0 && this->nb == __CPROVER_old(this->nb) && this->bounds.total == g_bounds0.total && this->bounds.count == g_bounds0.count && this->bounds.top.absolutePos == g_bounds0.top.absolutePos))
__CPROVER_assigns(__CPROVER_object_whole(this))
/*@extract
file = "src/place_detailed/row_legalizer.cpp"
head = 'inline long long RowLegalizer::getDisplacement\(int width, int targetPos,'
nloops = 1
rewrites = [['std::vector<Bound> passed_bounds;', 'VecBound passed_bounds; passed_bounds.n = 0;', '1'],
            ['passed_bounds\.push_back\(bounds\.top\(\)\);', 'passed_bounds.n++;', '1'],
            ['for \(Bound b : passed_bounds\) \{\s*bounds\.push\(b\);\s*\}', 'PQ_RESTORE();', '1'],
            ['\bbounds\.empty\(\)', 'PQ_empty(&this->bounds)', '1+'], ['\bbounds\.top\(\)', 'PQ_top(&this->bounds)', '1+'], ['\bbounds\.pop\(\)', 'PQ_pop(&this->bounds)', '1+'], ['\bbounds\.push\(', 'PQ_push(&this->bounds, ', '1+'],
            ['cumWidth_\.push_back\(width \+ usedSpace\(\)\);', 'this->used = width + usedSpace(); this->nb++;', '1'],
            ['constrainingPos_\.push_back\(finalAbsPos\);', 'this->last_constraining = finalAbsPos;', '1'],
            ['(?<![\w.>])(begin_|end_)\b', 'this->\1', '4+']]
[[loops]]
ordinal = 1
contract = '''
__CPROVER_assigns(cur_pos, cur_cost, slope, passed_bounds.n, this->bounds)
__CPROVER_loop_invariant(this->begin_ <= cur_pos && cur_pos <= this->end_)
__CPROVER_loop_invariant(PQ_WF(this->bounds, this->begin_, this->end_))
__CPROVER_loop_invariant(-width <= slope && slope <= (1 << 24) && this->bounds.total <= (1 << 24) && g_bounds0.total <= (1 << 24))
__CPROVER_loop_invariant((long long)slope + width + this->bounds.total == g_bounds0.total)
__CPROVER_loop_invariant(this->bounds.count == 0 || this->bounds.top.absolutePos <= cur_pos || cur_pos == this->end_ - this->used)
__CPROVER_loop_invariant(0 <= cur_cost && cur_cost <= ((long long)(this->end_ - cur_pos) << 24))
__CPROVER_loop_invariant(passed_bounds.n >= 0 && passed_bounds.n <= (1 << 20) && this->bounds.count <= (1 << 20) && passed_bounds.n + this->bounds.count <= (1 << 20))
__CPROVER_loop_invariant(cur_pos > std_min(targetAbsPos, this->end_ - this->used - width))
__CPROVER_loop_invariant(this->bounds.count <= g_bounds0.count)
__CPROVER_decreases(this->bounds.count)
'''
@*/

void harness(void) { RowLegalizer *t; int w, tp; bool u; RowLegalizer_getDisplacement(t, w, tp, u); REACH("end"); }
