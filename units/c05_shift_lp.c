/*@unit
properties = ["C05", "C02"]
mode = "dfcc"
enforce = "shift_pin_arcs"
timeout = 300
solver = "kissat"
function = "DetailedPlacer::runShiftsOnCells (place_detailed.cpp), three slices: (constraintArcs) every cell of the subproblem gets exactly the arcs of its ordering constraints - (next -> c, -width) for a movable successor, (c -> fixed, -boundaryBefore) for a fixed predecessor, (fixed -> c, boundaryAfter - width) for a fixed successor; (writeback) EVERY cell of the subproblem receives its LP position, in the placement and in the x model; (pinArcs) the part that turns every pin of every touched net into the two arcs of the wirelength LP: (cell -> L_net, offset) and (U_net -> cell, -offset) for a cell of the subproblem, (fixed -> L_net, pos + offset) and (U_net -> fixed, -pos - offset) otherwise"
variants = [
  {name = "pinArcs", enforce = "shift_pin_arcs", defines = ["H_ARCS"]},
  {name = "constraintArcs", enforce = "shift_constraint_arcs", defines = ["H_CONSTR"]},
  {name = "writeback", enforce = "shift_writeback", defines = ["H_WB"]},
]
assumptions = ["slice of the function body (the loop over nets and pins); the graph (lemon SmartDigraph), the node maps (std::unordered_map) and the arc/cost list are ghost recorders: addArc(a, b) and emplace_back(arc, cost) are CHECKED at the call against the arcs the LP of the half-perimeter wirelength needs, and counted for a ghost (net, pin)",
               "the pin at hand (cell, offset, cell position, membership in the subproblem) is a set of ghost scalars re-chosen arbitrarily in every iteration, so the checks at the calls hold for every pin; IncrNetModel accessors are not inlined here (unit c09_incr_model)",
               "a local std::unordered_set<int>, if present, is modelled exactly for one ghost key (the cell of the ghost pin) and arbitrarily for other keys",
               "NOT under contract: the positional-constraint arcs, supplies, lemon::NetworkSimplex (assumed optimal), and the read-back of potentials; that the dual of this flow problem is the HPWL-optimal shift is a paper step"]
@*/
#include "lower.h"
int verif_exc;
#define PMAX 100000
#define MAGV(v) ((v) >= -4194304 && (v) <= 4194304)
typedef long long Node;
typedef long long Arc;
#define CELL_NODE(c) ((1LL << 32) + (c))
#define LNODE(n) ((2LL << 32) + (n))
#define UNODE(n) ((3LL << 32) + (n))
#define fixed (0LL)
int nondet_int(void); bool nondet_bool(void);
/* ghost (net index, pin) whose arcs are counted */
int g_ni, g_q, g_np_n;
/* the pin at hand */
int g_np, g_cell_c, g_off_c, g_cpos_c; bool g_inset_c;
int g_key; bool g_set_has;     /* model of a local std::unordered_set<int>: exact for g_key */
#define SET_RESET() do { g_set_has = 0; } while (0)
#define SET_INSERT(x) ((x) == g_key ? (g_set_has ? 0 : (g_set_has = 1, 1)) : nondet_bool())
#define SET_COUNT(x) ((x) == g_key ? (g_set_has ? 1u : 0u) : (nondet_bool() ? 1u : 0u))
#define NBNETPINS (_i_net == g_ni ? g_np_n : g_np)
#define VERIF_AT (_i_net == g_ni && i == g_q)
int g_k, g_kc, g_cnt, g_cntc; Arc g_arc0, g_arc1; long long g_arcid;
#define ARC_SPEC(k, a, b) ((k) == 0 ? ((a) == (g_inset_c ? CELL_NODE(g_cell_c) : fixed) && (b) == LNODE(net)) : ((k) == 1 && (a) == UNODE(net) && (b) == (g_inset_c ? CELL_NODE(g_cell_c) : fixed)))
#define COST_SPEC(k, A, cost) ((k) == 0 ? ((A) == g_arc0 && (cost) == (g_inset_c ? g_off_c : g_cpos_c + g_off_c)) : ((k) == 1 && (A) == g_arc1 && (cost) == (g_inset_c ? -g_off_c : -g_cpos_c - g_off_c)))
static inline Arc add_arc(Node a, Node b, bool at, bool ok) {
  __CPROVER_assert(ok, "spec C05: the arcs of a pin are (cell|fixed -> L_net) then (U_net -> cell|fixed)");
  Arc id = ++g_arcid; if (g_k == 0) g_arc0 = id; else g_arc1 = id;
  if (g_k < 4) g_k++; if (at && g_cnt < 4) g_cnt++;
  return id;
}
#define ADD_ARC(a, b) add_arc(a, b, VERIF_AT, ARC_SPEC(g_k, a, b))
#define ARC_COST(A, cost) do { __CPROVER_assert(COST_SPEC(g_kc, A, cost), "spec C05: arc costs of a pin are +offset / -offset (plus / minus the position of a cell outside the subproblem), on the arc just created"); if (g_kc < 4) g_kc++; if (VERIF_AT && g_cntc < 4) g_cntc++; } while (0)
#define PIN_GHOSTS g_k, g_kc, g_arc0, g_arc1, g_arcid, g_cell_c, g_off_c, g_cpos_c, g_inset_c, g_set_has
#define CNT_OK(done) ((done) ? (g_cnt == 2 && g_cntc == 2) : (g_cnt == 0 && g_cntc == 0))

#ifdef H_ARCS
void shift_pin_arcs(const int *nets, int nets_size)
__CPROVER_requires(0 <= nets_size && nets_size <= PMAX && __CPROVER_is_fresh(nets, nets_size * sizeof(int)) && 0 <= g_ni && g_ni < nets_size && 0 <= g_q && 0 <= g_np_n && g_np_n <= PMAX)
__CPROVER_requires(g_cnt == 0 && g_cntc == 0 && g_arcid == 0 && verif_exc == 0)
/* C05 (LP models the wirelength): every pin of every touched net - repeated cells included - contributes its two arcs with their costs */
__CPROVER_ensures(g_q < g_np_n ==> CNT_OK(1))
__CPROVER_assigns(g_cnt, g_cntc, g_np, PIN_GHOSTS)
/*@extract
file = "src/place_detailed/place_detailed.cpp"
head = 'void DetailedPlacer::runShiftsOnCells\(const std::vector<int> &cells\)'
slice_from = 'for \(int net : nets\) \{(?=[^}]*?nbNetPins\(net\))'
slice_to = 'std::vector<node_pair> net_supplies;'
nloops = 2
rewrites = [['cell_set\.count\(c\)', '(g_inset_c ? 1u : 0u)', '1+'],
            ['std::unordered_set<int> (\w+);', 'SET_RESET();', '*'], ['\b\w+\.insert\((\w+)\)\.second', 'SET_INSERT(\1)', '*'], ['\b(?!cell_set)\w+\.count\((\w+)\)', 'SET_COUNT(\1)', '*'],
            ['cell_nodes\[(\w+)\]', 'CELL_NODE(\1)', '1+'], ['Lnet_nodes\[(\w+)\]', 'LNODE(\1)', '1+'], ['Unet_nodes\[(\w+)\]', 'UNODE(\1)', '1+'],
            ['\bg\.addArc\(', 'ADD_ARC(', '1+'], ['constraint_arcs\.emplace_back\(', 'ARC_COST(', '1+'],
            ['xtopo_\.nbNetPins\(net\)', 'NBNETPINS', '1+'], ['xtopo_\.pinCell\(net, i\)', 'g_cell_c', '1+'], ['xtopo_\.netPinOffset\(net, i\)', 'g_off_c', '1+'], ['xtopo_\.cellPos\(c\)', 'g_cpos_c', '1+']]
[[loops]]
ordinal = 1
contract = """
__CPROVER_assigns(_i_net, g_cnt, g_cntc, g_np, PIN_GHOSTS)
__CPROVER_loop_invariant(0 <= _i_net && _i_net <= nets_size && 0 <= g_arcid && (g_ni >= _i_net ==> CNT_OK(0)) && (g_ni < _i_net ==> (g_q < g_np_n ==> CNT_OK(1)) && (g_q >= g_np_n ==> CNT_OK(0))))
__CPROVER_decreases(nets_size - _i_net)
"""
[[loops]]
ordinal = 2
contract = """
__CPROVER_assigns(i, g_cnt, g_cntc, PIN_GHOSTS)
__CPROVER_loop_invariant(0 <= i && i <= NBNETPINS && 0 <= g_arcid && (_i_net == g_ni ==> CNT_OK(g_q < i)) && (_i_net != g_ni ==> (g_cnt == s_cnt && g_cntc == s_cntc)))
__CPROVER_decreases(NBNETPINS - i)
"""
[[ghosts]]
at = 'body_start:1'
text = """GHOST(g_np = nondet_int(); const int s_cnt = g_cnt; const int s_cntc = g_cntc;) __CPROVER_assume(0 <= g_np && g_np <= PMAX);"""
[[ghosts]]
at = 'body_start:2'
text = """GHOST(g_k = 0; g_kc = 0; g_cell_c = nondet_int(); g_off_c = nondet_int(); g_cpos_c = nondet_int(); g_inset_c = nondet_bool();) __CPROVER_assume(MAGV(g_off_c) && MAGV(g_cpos_c) && 0 <= g_cell_c && g_cell_c <= PMAX && (VERIF_AT ==> g_cell_c == g_key) && g_arcid < (1LL << 40)); /* the pin at hand: arbitrary, so every check below holds for EVERY pin */"""
@*/
void harness(void) { const int *nets; int n; shift_pin_arcs(nets, n); REACH("end"); }
#endif

#ifdef H_CONSTR
int g_ci;                       /* ghost index into cells: its arcs are counted */
int g_pred, g_next, g_w, g_bb, g_ba; bool g_pred_in, g_next_in;   /* the cell at hand: arbitrary per iteration */
bool g_seen0, g_seen1, g_seen2; int g_lastkind; int g_exp;
#undef VERIF_AT
#define VERIF_AT (_i_c == g_ci)
#define A0(a, b) ((a) == CELL_NODE(g_next) && (b) == CELL_NODE(c))
#define A1(a, b) ((a) == CELL_NODE(c) && (b) == fixed)
#define A2(a, b) ((a) == fixed && (b) == CELL_NODE(c))
static inline Arc add_carc(bool is0, bool is1, bool is2, bool at) {
  __CPROVER_assert((is0 && g_next_in && !g_seen0) || (is1 && !g_pred_in && !g_seen1) || (is2 && !g_next_in && !g_seen2), "spec C02: an ordering-constraint arc of the LP is one of (next -> c) for a movable successor, (c -> fixed) for a fixed predecessor, (fixed -> c) for a fixed successor, each at most once per cell");
  if (is0 && g_next_in && !g_seen0) { g_seen0 = 1; g_lastkind = 0; } else if (is1 && !g_pred_in && !g_seen1) { g_seen1 = 1; g_lastkind = 1; } else { g_seen2 = 1; g_lastkind = 2; }
  if (at && g_cnt < 4) g_cnt++;
  return ++g_arcid;
}
#undef ADD_ARC
#define ADD_ARC(a, b) add_carc(A0(a, b), A1(a, b), A2(a, b), VERIF_AT)
#undef ARC_COST
#define ARC_COST(A, cost) do { __CPROVER_assert((A) == g_arcid && (cost) == (g_lastkind == 0 ? -g_w : g_lastkind == 1 ? -g_bb : g_ba - g_w), "spec C02: the cost of an ordering-constraint arc is -width / -boundaryBefore / boundaryAfter - width, on the arc just created"); if (VERIF_AT && g_cntc < 4) g_cntc++; } while (0)
#define CELL_GHOSTS g_pred, g_next, g_w, g_bb, g_ba, g_pred_in, g_next_in, g_seen0, g_seen1, g_seen2, g_lastkind, g_arcid
void shift_constraint_arcs(const int *cells, int cells_size)
__CPROVER_requires(0 <= cells_size && cells_size <= PMAX && __CPROVER_is_fresh(cells, cells_size * sizeof(int)) && 0 <= g_ci && g_ci < cells_size && g_cnt == 0 && g_cntc == 0 && g_arcid == 0 && verif_exc == 0)
/* C02 (the LP contains every ordering constraint, so its solution is a legal placement): the ghost cell got all its arcs, each with its cost */
__CPROVER_ensures(g_cnt == g_exp && g_cntc == g_exp && 1 <= g_exp && g_exp <= 2)
__CPROVER_assigns(g_cnt, g_cntc, g_exp, CELL_GHOSTS)
/*@extract
file = "src/place_detailed/place_detailed.cpp"
head = 'void DetailedPlacer::runShiftsOnCells\(const std::vector<int> &cells\)'
slice_from = 'for \(int c : cells\) \{\s*int pred = '
slice_to = 'for \(int net : nets\) \{(?=[^}]*?nbNetPins\(net\))'
nloops = 1
rewrites = [['cell_set\.count\(next\)', '(g_next_in ? 1u : 0u)', '1+'], ['cell_set\.count\(pred\)', '(g_pred_in ? 1u : 0u)', '1+'],
            ['cell_nodes\[(\w+)\]', 'CELL_NODE(\1)', '1+'], ['\bg\.addArc\(', 'ADD_ARC(', '1+'], ['constraint_arcs\.emplace_back\(', 'ARC_COST(', '1+'],
            ['placement_\.cellPred\(c\)', 'g_pred', '1+'], ['placement_\.cellNext\(c\)', 'g_next', '1+'], ['placement_\.cellWidth\(c\)', 'g_w', '1+'],
            ['placement_\.boundaryBefore\(c\)', 'g_bb', '1+'], ['placement_\.boundaryAfter\(c\)', 'g_ba', '1+']]
[[loops]]
ordinal = 1
contract = """
__CPROVER_assigns(_i_c, g_cnt, g_cntc, g_exp, CELL_GHOSTS)
__CPROVER_loop_invariant(0 <= _i_c && _i_c <= cells_size && 0 <= g_arcid && (g_ci >= _i_c ==> (g_cnt == 0 && g_cntc == 0)) && (g_ci < _i_c ==> (g_cnt == g_exp && g_cntc == g_exp && 1 <= g_exp && g_exp <= 2)))
__CPROVER_decreases(cells_size - _i_c)
"""
[[ghosts]]
after = 'int c = cells\[_i_c\];'
text = """GHOST(g_pred = nondet_int(); g_next = nondet_int(); g_w = nondet_int(); g_bb = nondet_int(); g_ba = nondet_int(); g_pred_in = nondet_bool(); g_next_in = nondet_bool(); g_seen0 = 0; g_seen1 = 0; g_seen2 = 0; if (VERIF_AT) g_exp = 1 + (g_pred_in ? 0 : 1);) __CPROVER_assume(MAGV(g_w) && MAGV(g_bb) && MAGV(g_ba) && 0 <= c && c <= PMAX && 0 <= g_next && g_next <= PMAX && g_next != c && g_arcid < (1LL << 40)); /* the cell at hand: arbitrary, so the checks hold for EVERY cell */"""
@*/
void harness(void) { const int *cells; int n; shift_constraint_arcs(cells, n); REACH("end"); }
#endif

#ifdef H_WB
int g_ci; int g_pot_c, g_pot_fixed, g_npins;
int g_wr, g_up;
#undef VERIF_AT
#define VERIF_AT (_i_c == g_ci)
#define WRITE_X(c, v) do { __CPROVER_assert((v) == g_pot_c - g_pot_fixed, "spec: the position written is the potential of the cell relative to the fixed node"); if (VERIF_AT && g_wr < 4) g_wr++; } while (0)
#define UPDATE_POS(c, v) do { __CPROVER_assert((v) == g_pot_c - g_pot_fixed, "spec: the x model receives the same position"); if (VERIF_AT && g_up < 4) g_up++; } while (0)
void shift_writeback(const int *cells, int cells_size)
__CPROVER_requires(0 <= cells_size && cells_size <= PMAX && __CPROVER_is_fresh(cells, cells_size * sizeof(int)) && 0 <= g_ci && g_ci < cells_size && g_wr == 0 && g_up == 0 && MAGV(g_pot_fixed) && verif_exc == 0)
/* C02/C05: every cell of the subproblem - connected or not - is moved to its LP position, consistently in the placement and in the x model
 * (a partial write-back leaves cells where the LP assumed they had moved: overlaps) */
__CPROVER_ensures(g_wr == 1 && g_up == 1)
__CPROVER_assigns(g_wr, g_up, g_pot_c, g_npins)
/*@extract
file = "src/place_detailed/place_detailed.cpp"
head = 'void DetailedPlacer::runShiftsOnCells\(const std::vector<int> &cells\)'
slice_from = 'for \(int c : cells\) \{(?![\s\S]*for \(int c : cells\) \{)'
nloops = 1
rewrites = [['ns\.potential\(cell_nodes\[c\]\)', 'g_pot_c', '1+'], ['ns\.potential\(fixed\)', 'g_pot_fixed', '1+'],
            ['placement_\.cellX_\[c\] = ([^;]*);', 'WRITE_X(c, \1);', '1+'], ['xtopo_\.updateCellPos\(c, ([^;]*)\);', 'UPDATE_POS(c, \1);', '1+'],
            ['xtopo_\.nbCellPins\(c\)', 'g_npins', '*']]
[[loops]]
ordinal = 1
contract = """
__CPROVER_assigns(_i_c, g_wr, g_up, g_pot_c, g_npins)
__CPROVER_loop_invariant(0 <= _i_c && _i_c <= cells_size && (g_ci >= _i_c ==> (g_wr == 0 && g_up == 0)) && (g_ci < _i_c ==> (g_wr == 1 && g_up == 1)))
__CPROVER_decreases(cells_size - _i_c)
"""
[[ghosts]]
after = 'int c = cells\[_i_c\];'
text = """GHOST(g_pot_c = nondet_int(); g_npins = nondet_int();) __CPROVER_assume(MAGV(g_pot_c) && 0 <= g_npins);"""
@*/
void harness(void) { const int *cells; int n; shift_writeback(cells, n); REACH("end"); }
#endif

