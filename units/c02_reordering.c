/*@unit
properties = ["C02", "C04"]
mode = "dfcc"
enforce = "RowReordering_runRegionChoice"
timeout = 300
function = "RowReordering::runRegionChoice (place_detailed.cpp): a cell is assigned to a region only if the region's cells, including it, fit the region width and its polarity admits the row"
replace = ["Placement_isRowCompatible", "Placement_rowY", "Topo_updateCellPos", "RowReordering_recurse", "RowReordering_runOrdering"]
assumptions = ["abstract state of RowReordering: order_[i] is represented by its allocated width (what allocatedWidth(i) sums) and its last element; regions_ by width and row; the recursive call and runOrdering are replaced by a contract that requires the invariant 'every region's allocated width fits its width, every assigned cell is admitted by its row' - the invariant under which writeback()'s place() calls cannot be refused (units c02_dp_place / c02_dp_queries)",
               "RowReordering::runOrdering (std::next_permutation), writeback, addRow/addCells are not under contract"]
[replay]
template = "replay/c02_detailed_history.cpp"
search = true
inputs = []
@*/
#include "lower.h"
int verif_exc;
#define NMAX 64
#define RMAX 8
typedef struct { int *cells_; int cells__size; int nregions; } RowReordering;
/* ghost model */
int g_alloc[RMAX], g_rwidth[RMAX], g_back[RMAX]; bool g_compat_all[RMAX];   /* per region */
int *g_cw;            /* cell widths (>= 1) */
bool *g_compat;       /* g_compat[c * RMAX + i]: the polarity of cell c admits the row of region i */
int g_r;              /* ghost region */
#define nbCells() (this->cells__size)
#define nbRegions() (this->nregions)
#define ALLOC(i) (g_alloc[i])
#define RWIDTH(i) (g_rwidth[i])
#define RROW(i) (i)
#define ORDER_PUSH(i, c) do { g_alloc[i] += g_cw[c]; g_prev_back = g_back[i]; g_back[i] = (c); } while (0)
#define ORDER_BACK(i) (g_back[i])
#define ORDER_POP(i) do { g_alloc[i] -= g_cw[g_back[i]]; g_back[i] = g_prev_back; } while (0)
/* INV: the assignment built so far fits: this is what makes the later write-back feasible */
#define FITS(r) (g_alloc[r] <= g_rwidth[r] && g_compat_all[r])
bool Placement_isRowCompatible(const RowReordering *this, int c, int row)
__CPROVER_requires(0 <= c && c < NMAX && 0 <= row && row < RMAX)
__CPROVER_ensures(__CPROVER_return_value == g_compat[c * RMAX + row])
__CPROVER_assigns();
int Placement_rowY(const RowReordering *this, int row)
__CPROVER_requires(0 <= row && row < RMAX) __CPROVER_ensures(1) __CPROVER_assigns();
void Topo_updateCellPos(RowReordering *this, int c, int y)
__CPROVER_requires(1) __CPROVER_ensures(1) __CPROVER_assigns();
int g_lastcell, g_lastregion;
void RowReordering_recurse(RowReordering *this, int cellInd)
/* C02/C04: the search only descends with an assignment in which every region fits and the newly assigned cell is admitted by the region's row */
__CPROVER_requires(FITS(g_r) && g_alloc[g_lastregion] <= g_rwidth[g_lastregion] && g_compat[g_lastcell * RMAX + g_lastregion])
__CPROVER_ensures(g_alloc[g_r] == __CPROVER_old(g_alloc[g_r]) && g_back[g_r] == __CPROVER_old(g_back[g_r]) && g_alloc[g_lastregion] == __CPROVER_old(g_alloc[g_lastregion]) && g_back[g_lastregion] == __CPROVER_old(g_back[g_lastregion]))
__CPROVER_assigns();
void RowReordering_runOrdering(RowReordering *this, int rowInd)
__CPROVER_requires(FITS(g_r))
__CPROVER_ensures(1)
__CPROVER_assigns();

void RowReordering_runRegionChoice(RowReordering *this, int cellInd)
__CPROVER_requires(__CPROVER_is_fresh(this, sizeof(*this)) && 1 <= this->cells__size && this->cells__size <= NMAX && __CPROVER_is_fresh(this->cells_, this->cells__size * sizeof(int)) && 1 <= this->nregions && this->nregions <= RMAX)
__CPROVER_requires(__CPROVER_is_fresh(g_cw, NMAX * sizeof(int)) && __CPROVER_is_fresh(g_compat, NMAX * RMAX * sizeof(bool)) && -1 <= cellInd && cellInd < this->cells__size && 0 <= g_r && g_r < this->nregions)
__CPROVER_requires(FITS(g_r) && 0 <= g_alloc[g_r] && g_rwidth[g_r] <= 8388608)
__CPROVER_ensures(g_alloc[g_r] == __CPROVER_old(g_alloc[g_r]))
__CPROVER_assigns(__CPROVER_object_whole(g_alloc), __CPROVER_object_whole(g_back), g_lastcell, g_lastregion)
/*@extract
file = "src/place_detailed/place_detailed.cpp"
head = 'void RowReordering::runRegionChoice\(int cellInd\)'
nloops = 1
rewrites = [['order_\[i\]\.push_back\(([^;]*)\);', 'ORDER_PUSH(i, \1);', '1+'], ['order_\[i\]\.back\(\)', 'ORDER_BACK(i)', '*'], ['order_\[i\]\.pop_back\(\);', 'ORDER_POP(i);', '1+'],
            ['\ballocatedWidth\(i\)', 'ALLOC(i)', '1+'], ['regions_\[i\]\.width\(\)', 'RWIDTH(i)', '1+'], ['regions_\[i\]\.row', 'RROW(i)', '*'],
            ['placement_\.isRowCompatible\(', 'Placement_isRowCompatible(this, ', '*'], ['placement_\.rowY\(', 'Placement_rowY(this, ', '*'], ['ytopo_\.updateCellPos\(', 'Topo_updateCellPos(this, ', '*'],
            ['\brunRegionChoice\(([^;]*)\);', 'GHOST(g_lastcell = this->cells_[cellInd]; g_lastregion = i;) RowReordering_recurse(this, \1);', '1+'], ['\brunOrdering\(', 'RowReordering_runOrdering(this, ', '1+'],
            ['(?<![\w>.])cells_\[', 'this->cells_[', '1+']]
[[loops]]
ordinal = 1
contract = '''
__CPROVER_assigns(i, g_prev_back, __CPROVER_object_whole(g_alloc), __CPROVER_object_whole(g_back), g_lastcell, g_lastregion)
__CPROVER_loop_invariant(0 <= i && i <= this->nregions)
__CPROVER_loop_invariant(g_alloc[g_r] == g_alloc0 && FITS(g_r))
__CPROVER_decreases(this->nregions - i)
'''
[[ghosts]]
at = 'before:1'
text = '''GHOST(const int g_alloc0 = g_alloc[g_r]; int g_prev_back = 0;) __CPROVER_assume(0 <= this->cells_[cellInd] && this->cells_[cellInd] < NMAX && 1 <= g_cw[this->cells_[cellInd]] && g_cw[this->cells_[cellInd]] <= 4194304); /* INSTANTIATE: registered cells are cells of the placement with positive width */'''
[[ghosts]]
at = 'body_start:1'
text = '''__CPROVER_assume(0 <= g_alloc[i] && g_alloc[i] <= 8388608 && g_rwidth[i] <= 8388608 && (i == g_r || (g_compat_all[i] && g_alloc[i] <= g_rwidth[i]))); /* INSTANTIATE FITS(i): the invariant holds for every region, here at the loop index */'''
@*/

void harness(void) { RowReordering *t; int k; RowReordering_runRegionChoice(t, k); REACH("end"); }
