/*@unit
properties = ["C06", "C17"]
mode = "dfcc"
enforce = "NetModel_xTopology"
timeout = 600
solver = "kissat"
function = "NetModel::xTopology, NetModel::yTopology (net_model.cpp): per net, the weight handed to the continuous model is the circuit's net weight, fixed pins are folded into extremes clamped to the placement area, movable pins keep their offset relative to the cell centre"
variants = [
  {name = "x", enforce = "NetModel_xTopology", defines = ["H_X"], replace = ["Circuit_computePlacementArea", "Circuit_pinOffset", "Circuit_placedSize", "NetModel_addNet5", "NetModel_check"]},
  {name = "y", enforce = "NetModel_yTopology", defines = ["H_Y"], replace = ["Circuit_computePlacementArea", "Circuit_pinOffset", "Circuit_placedSize", "NetModel_addNet5", "NetModel_check"]},
]
assumptions = ["local vectors cells/offsets are represented by their length and the entry of a ghost pin; NetModel::addNet(cells, offsets, minPin, maxPin, weight) is replaced by a contract that records its arguments for the ghost net (its own 5-argument body - fixed pseudo-pins - is not under contract; the 3-argument addNet is unit c17_net_weights)",
               "pin offsets / placed sizes come from ghost arrays (their geometric correctness: unit c09_pin_offsets)"]
@*/
#include "lower.h"
int verif_exc;
/*@include units/inc/circuit.inc @*/
/*@include units/inc/circuit_off.inc @*/
#define NMAX 2048
typedef struct { int nbCells_; } NetModel;
int nc, nn, np;
int g_n;                    /* ghost net */
int *g_off; int *g_psize;   /* ghost: oriented pin offset per pin, placed size per cell (along the axis at hand) */
Rectangle g_area;
/* recorded arguments of addNet for the ghost net */
bool g_added; float g_minPin, g_maxPin, g_weight; int g_ncells;
/* ghost pin q of the ghost net: is it movable, and which offset was pushed for it */
int g_q; bool g_q_pushed; float g_q_offset; int g_q_cell; float g_qoff_spec;
float g_min_seen, g_max_seen; bool g_any_fixed;   /* running extremes of fixed pins of the ghost net, updated by ghost code */
Rectangle Circuit_computePlacementArea(const Circuit *circuit_p)
__CPROVER_requires(1)
__CPROVER_ensures(__CPROVER_return_value.minX == g_area.minX && __CPROVER_return_value.maxX == g_area.maxX && __CPROVER_return_value.minY == g_area.minY && __CPROVER_return_value.maxY == g_area.maxY)
__CPROVER_assigns();
int Circuit_pinOffset(const Circuit *circuit_p, int net, int i)
__CPROVER_requires(0 <= net && net < nn && 0 <= i && i < circuit_p->netLimits_[net + 1] - circuit_p->netLimits_[net])
__CPROVER_ensures(__CPROVER_return_value == g_off[circuit_p->netLimits_[net] + i])
__CPROVER_assigns();
int Circuit_placedSize(const Circuit *circuit_p, int cell)
__CPROVER_requires(0 <= cell && cell < nc)
__CPROVER_ensures(__CPROVER_return_value == g_psize[cell])
__CPROVER_assigns();
void NetModel_addNet5(NetModel *ret, int cells_size, float minPin, float maxPin, float weight, int net)
__CPROVER_requires(1)
__CPROVER_ensures(net != g_n || (g_added && g_minPin == minPin && g_maxPin == maxPin && g_weight == weight && g_ncells == cells_size))
__CPROVER_ensures(net == g_n || (g_added == __CPROVER_old(g_added) && g_minPin == __CPROVER_old(g_minPin) && g_maxPin == __CPROVER_old(g_maxPin) && g_weight == __CPROVER_old(g_weight)))
__CPROVER_assigns(g_added, g_minPin, g_maxPin, g_weight, g_ncells);
void NetModel_check(const NetModel *ret)
__CPROVER_requires(1) __CPROVER_ensures(1) __CPROVER_assigns(verif_exc);
#define CELLS_PUSH(c) do { if (i == g_n && j == g_q) { g_q_cell = (c); } cells_size++; } while (0)
#define OFFSETS_PUSH(v) do { if (i == g_n && j == g_q) { g_q_pushed = 1; g_q_offset = (v); } offsets_size++; } while (0)
#define TOPO_CONTRACT(AMIN, AMAX) \
__CPROVER_requires(__CPROVER_is_fresh(circuit_p, sizeof(Circuit)) && verif_exc == 0 && 1 <= nc && nc <= NMAX && 1 <= nn && nn <= NMAX && 0 <= np && np <= NMAX) \
__CPROVER_requires(CFRESH(circuit_p, cellWidth_, nc, int) && CFRESH(circuit_p, cellX_, nc, int) && CFRESH(circuit_p, cellY_, nc, int) && CFRESH(circuit_p, cellIsFixed_, nc, bool)) \
__CPROVER_requires(CFRESH(circuit_p, netLimits_, nn + 1, int) && CFRESH(circuit_p, pinCells_, np, int) && CFRESH(circuit_p, netWeights_, nn, float) && __CPROVER_is_fresh(g_off, np * sizeof(int)) && __CPROVER_is_fresh(g_psize, nc * sizeof(int))) \
__CPROVER_requires(circuit_p->netLimits_[0] == 0 && circuit_p->netLimits_[nn] == np && 0 <= g_n && g_n < nn && !g_added && !g_q_pushed && !g_any_fixed && 0 <= g_q && g_min_seen == g_min_seen && g_max_seen == g_max_seen && g_q_offset == g_q_offset && g_qoff_spec == g_qoff_spec) \
__CPROVER_requires(MAGV(g_area.minX) && MAGV(g_area.maxX) && MAGV(g_area.minY) && MAGV(g_area.maxY) && g_area.minX <= g_area.maxX && g_area.minY <= g_area.maxY) \
/* C17: the weight of every net reaches the continuous model unchanged */ \
__CPROVER_ensures(!verif_exc ==> (g_added && g_weight == circuit_p->netWeights_[g_n])) \
/* C06: fixed pins are represented by their extremes, clamped into the placement area */ \
__CPROVER_ensures((!verif_exc && g_any_fixed) ==> (g_minPin == std_max(g_min_seen, (float)(AMIN)) && g_maxPin == std_min(g_max_seen, (float)(AMAX)) && g_minPin >= (float)(AMIN) && g_maxPin <= (float)(AMAX))) \
__CPROVER_ensures((!verif_exc && !g_any_fixed) ==> (g_minPin == (float)INFINITY)) \
/* a movable pin keeps its offset relative to the centre of its (placed) cell */ \
__CPROVER_ensures((!verif_exc && g_q_pushed) ==> (g_q_offset == g_qoff_spec)) \
__CPROVER_assigns(verif_exc, g_added, g_minPin, g_maxPin, g_weight, g_ncells, g_q_pushed, g_q_offset, g_q_cell, g_min_seen, g_max_seen, g_any_fixed, g_qoff_spec)

#ifdef H_X
NetModel NetModel_xTopology(const Circuit *circuit_p)
TOPO_CONTRACT(g_area.minX, g_area.maxX)
/*@extract
file = "src/place_global/net_model.cpp"
head = 'NetModel NetModel::xTopology\(const Circuit &circuit\)'
nloops = 2
rewrites = [['NetModel ret\(circuit\.nbCells\(\)\);', 'NetModel ret; ret.nbCells_ = Circuit_nbCells(circuit_p);', '1'],
            ['std::vector<int> cells;\s*std::vector<float> offsets;', 'int cells_size = 0; int offsets_size = 0;', '1'],
            ['cells\.push_back\(([^;]*)\);', 'CELLS_PUSH(\1);', '1+'], ['offsets\.push_back\(([^;]*)\);', 'OFFSETS_PUSH(\1);', '1+'],
            ['ret\.addNet\(cells, offsets, ([^;]*)\);', 'NetModel_addNet5(&ret, cells_size, \1, i);', '1+'], ['ret\.check\(\);', 'NetModel_check(&ret); VERIF_PROPAGATE;', '*'],
            ['\bcircuit\.computePlacementArea\(\)', 'Circuit_computePlacementArea(circuit_p)', '1'], ['\bcircuit\.(nbNets|nbCells)\(\)', 'Circuit_\1(circuit_p)', '1+'],
            ['\bcircuit\.pin[XY]Offset\(', 'Circuit_pinOffset(circuit_p, ', '1+'], ['\bcircuit\.placed(Width|Height)\(', 'Circuit_placedSize(circuit_p, ', '1+'],
            ['\bcircuit\.(nbPinsNet|pinCell|isFixed|x|y|netWeight)\(', 'Circuit_\1(circuit_p, ', '4+']]
[[loops]]
ordinal = 1
contract = '''
__CPROVER_assigns(i, verif_exc, g_added, g_minPin, g_maxPin, g_weight, g_ncells, g_q_pushed, g_q_offset, g_q_cell, g_min_seen, g_max_seen, g_any_fixed, g_qoff_spec)
__CPROVER_loop_invariant(0 <= i && i <= nn && verif_exc == 0)
__CPROVER_loop_invariant(g_min_seen == g_min_seen && g_max_seen == g_max_seen && g_q_offset == g_q_offset && g_qoff_spec == g_qoff_spec) /* ghost floats are not NaN, so that the snapshots compare equal */
__CPROVER_loop_invariant(g_n < i ==> (g_added && g_weight == circuit_p->netWeights_[g_n]))
__CPROVER_loop_invariant((g_n < i && g_any_fixed) ==> (g_minPin == std_max(g_min_seen, areaMin) && g_maxPin == std_min(g_max_seen, areaMax) && g_minPin >= areaMin && g_maxPin <= areaMax))
__CPROVER_loop_invariant((g_n < i && !g_any_fixed) ==> (g_minPin == (float)INFINITY))
__CPROVER_loop_invariant(g_n >= i ==> (!g_any_fixed && !g_q_pushed && !g_added))
__CPROVER_loop_invariant(g_q_pushed ==> (g_n < i && g_q_offset == g_qoff_spec))
__CPROVER_decreases(nn - i)
'''
[[loops]]
ordinal = 2
contract = '''
__CPROVER_assigns(j, minPos, maxPos, cells_size, offsets_size, g_q_pushed, g_q_offset, g_q_cell, g_min_seen, g_max_seen, g_any_fixed, g_qoff_spec)
__CPROVER_loop_invariant(0 <= j && j <= g_hi - g_lo && 0 <= cells_size && cells_size <= j && offsets_size == cells_size)
__CPROVER_loop_invariant(g_min_seen == g_min_seen && g_max_seen == g_max_seen && g_q_offset == g_q_offset && g_qoff_spec == g_qoff_spec)
__CPROVER_loop_invariant((i == g_n && g_any_fixed) ==> (minPos == g_min_seen && maxPos == g_max_seen && minPos <= maxPos && minPos >= -16777216.0f && maxPos <= 16777216.0f))
__CPROVER_loop_invariant((i == g_n && !g_any_fixed) ==> (minPos == (float)INFINITY && maxPos == -(float)INFINITY))
__CPROVER_loop_invariant(i != g_n ==> (g_any_fixed == g_any_fixed0 && g_q_pushed == g_q_pushed0 && g_min_seen == g_min_seen0 && g_max_seen == g_max_seen0 && g_q_offset == g_q_offset0 && g_qoff_spec == g_qoff_spec0))
__CPROVER_loop_invariant(g_q_pushed ==> ((i == g_n || g_q_pushed0) && g_q_offset == g_qoff_spec))
__CPROVER_decreases(g_hi - g_lo - j)
'''
[[ghosts]]
at = 'body_start:1'
text = '''GHOST(const int g_lo = circuit_p->netLimits_[i]; const int g_hi = circuit_p->netLimits_[i + 1]; const bool g_any_fixed0 = g_any_fixed; const bool g_q_pushed0 = g_q_pushed; const float g_min_seen0 = g_min_seen; const float g_max_seen0 = g_max_seen; const float g_q_offset0 = g_q_offset; const float g_qoff_spec0 = g_qoff_spec;) __CPROVER_assume(0 <= g_lo && g_lo <= g_hi && g_hi <= np); /* INSTANTIATE P(net) */'''
[[ghosts]]
after = 'int cell = Circuit_pinCell\(circuit_p, i, j\);'
text = '''__CPROVER_assume(0 <= cell && cell < nc); GHOST(const int g_cx = circuit_p->cellX_[cell]; const int g_cy = circuit_p->cellY_[cell]; const int g_o = g_off[g_lo + j]; const int g_ps = g_psize[cell];) __CPROVER_assume(MAGV(g_cx) && MAGV(g_cy) && g_o >= -8388608 && g_o <= 8388608 && MAGSZ(g_ps)); /* INSTANTIATE P(pin), MAG */'''
[[ghosts]]
after = 'int pos = Circuit_[xy]\(circuit_p, cell\) \+ offset;'
text = '''GHOST(if (i == g_n) { if (!g_any_fixed || (float)pos < g_min_seen) g_min_seen = (float)pos; if (!g_any_fixed || (float)pos > g_max_seen) g_max_seen = (float)pos; g_any_fixed = 1; })'''
[[ghosts]]
before = 'CELLS_PUSH\('
text = '''GHOST(if (i == g_n && j == g_q) g_qoff_spec = (float)offset - 0.5f * (float)g_ps;)'''
@*/
#endif

#ifdef H_Y
NetModel NetModel_yTopology(const Circuit *circuit_p)
TOPO_CONTRACT(g_area.minY, g_area.maxY)
/*@extract
file = "src/place_global/net_model.cpp"
head = 'NetModel NetModel::yTopology\(const Circuit &circuit\)'
nloops = 2
rewrites = [['NetModel ret\(circuit\.nbCells\(\)\);', 'NetModel ret; ret.nbCells_ = Circuit_nbCells(circuit_p);', '1'],
            ['std::vector<int> cells;\s*std::vector<float> offsets;', 'int cells_size = 0; int offsets_size = 0;', '1'],
            ['cells\.push_back\(([^;]*)\);', 'CELLS_PUSH(\1);', '1+'], ['offsets\.push_back\(([^;]*)\);', 'OFFSETS_PUSH(\1);', '1+'],
            ['ret\.addNet\(cells, offsets, ([^;]*)\);', 'NetModel_addNet5(&ret, cells_size, \1, i);', '1+'], ['ret\.check\(\);', 'NetModel_check(&ret); VERIF_PROPAGATE;', '*'],
            ['\bcircuit\.computePlacementArea\(\)', 'Circuit_computePlacementArea(circuit_p)', '1'], ['\bcircuit\.(nbNets|nbCells)\(\)', 'Circuit_\1(circuit_p)', '1+'],
            ['\bcircuit\.pin[XY]Offset\(', 'Circuit_pinOffset(circuit_p, ', '1+'], ['\bcircuit\.placed(Width|Height)\(', 'Circuit_placedSize(circuit_p, ', '1+'],
            ['\bcircuit\.(nbPinsNet|pinCell|isFixed|x|y|netWeight)\(', 'Circuit_\1(circuit_p, ', '4+']]
[[loops]]
ordinal = 1
contract = '''
__CPROVER_assigns(i, verif_exc, g_added, g_minPin, g_maxPin, g_weight, g_ncells, g_q_pushed, g_q_offset, g_q_cell, g_min_seen, g_max_seen, g_any_fixed, g_qoff_spec)
__CPROVER_loop_invariant(0 <= i && i <= nn && verif_exc == 0)
__CPROVER_loop_invariant(g_min_seen == g_min_seen && g_max_seen == g_max_seen && g_q_offset == g_q_offset && g_qoff_spec == g_qoff_spec) /* ghost floats are not NaN, so that the snapshots compare equal */
__CPROVER_loop_invariant(g_n < i ==> (g_added && g_weight == circuit_p->netWeights_[g_n]))
__CPROVER_loop_invariant((g_n < i && g_any_fixed) ==> (g_minPin == std_max(g_min_seen, areaMin) && g_maxPin == std_min(g_max_seen, areaMax) && g_minPin >= areaMin && g_maxPin <= areaMax))
__CPROVER_loop_invariant((g_n < i && !g_any_fixed) ==> (g_minPin == (float)INFINITY))
__CPROVER_loop_invariant(g_n >= i ==> (!g_any_fixed && !g_q_pushed && !g_added))
__CPROVER_loop_invariant(g_q_pushed ==> (g_n < i && g_q_offset == g_qoff_spec))
__CPROVER_decreases(nn - i)
'''
[[loops]]
ordinal = 2
contract = '''
__CPROVER_assigns(j, minPos, maxPos, cells_size, offsets_size, g_q_pushed, g_q_offset, g_q_cell, g_min_seen, g_max_seen, g_any_fixed, g_qoff_spec)
__CPROVER_loop_invariant(0 <= j && j <= g_hi - g_lo && 0 <= cells_size && cells_size <= j && offsets_size == cells_size)
__CPROVER_loop_invariant(g_min_seen == g_min_seen && g_max_seen == g_max_seen && g_q_offset == g_q_offset && g_qoff_spec == g_qoff_spec)
__CPROVER_loop_invariant((i == g_n && g_any_fixed) ==> (minPos == g_min_seen && maxPos == g_max_seen && minPos <= maxPos && minPos >= -16777216.0f && maxPos <= 16777216.0f))
__CPROVER_loop_invariant((i == g_n && !g_any_fixed) ==> (minPos == (float)INFINITY && maxPos == -(float)INFINITY))
__CPROVER_loop_invariant(i != g_n ==> (g_any_fixed == g_any_fixed0 && g_q_pushed == g_q_pushed0 && g_min_seen == g_min_seen0 && g_max_seen == g_max_seen0 && g_q_offset == g_q_offset0 && g_qoff_spec == g_qoff_spec0))
__CPROVER_loop_invariant(g_q_pushed ==> ((i == g_n || g_q_pushed0) && g_q_offset == g_qoff_spec))
__CPROVER_decreases(g_hi - g_lo - j)
'''
[[ghosts]]
at = 'body_start:1'
text = '''GHOST(const int g_lo = circuit_p->netLimits_[i]; const int g_hi = circuit_p->netLimits_[i + 1]; const bool g_any_fixed0 = g_any_fixed; const bool g_q_pushed0 = g_q_pushed; const float g_min_seen0 = g_min_seen; const float g_max_seen0 = g_max_seen; const float g_q_offset0 = g_q_offset; const float g_qoff_spec0 = g_qoff_spec;) __CPROVER_assume(0 <= g_lo && g_lo <= g_hi && g_hi <= np); /* INSTANTIATE P(net) */'''
[[ghosts]]
after = 'int cell = Circuit_pinCell\(circuit_p, i, j\);'
text = '''__CPROVER_assume(0 <= cell && cell < nc); GHOST(const int g_cx = circuit_p->cellX_[cell]; const int g_cy = circuit_p->cellY_[cell]; const int g_o = g_off[g_lo + j]; const int g_ps = g_psize[cell];) __CPROVER_assume(MAGV(g_cx) && MAGV(g_cy) && g_o >= -8388608 && g_o <= 8388608 && MAGSZ(g_ps)); /* INSTANTIATE P(pin), MAG */'''
[[ghosts]]
after = 'int pos = Circuit_[xy]\(circuit_p, cell\) \+ offset;'
text = '''GHOST(if (i == g_n) { if (!g_any_fixed || (float)pos < g_min_seen) g_min_seen = (float)pos; if (!g_any_fixed || (float)pos > g_max_seen) g_max_seen = (float)pos; g_any_fixed = 1; })'''
[[ghosts]]
before = 'CELLS_PUSH\('
text = '''GHOST(if (i == g_n && j == g_q) g_qoff_spec = (float)offset - 0.5f * (float)g_ps;)'''
@*/
#endif

void harness(void) {
  Circuit *c;
#if defined(H_X)
  NetModel_xTopology(c);
#else
  NetModel_yTopology(c);
#endif
  REACH("end");
}
