/*@unit
properties = []
safety = ["C07"]
mode = "dfcc"
enforce = "RowReordering_addRow_asserts"
loop_contracts = false
timeout = 120
function = "RowReordering::addRow (place_detailed.cpp): the three consistency assertions at its head, for every (row, cellPred, cellNext) RowReordering::addCells can hand it"
assumptions = ["call-site precondition taken from RowReordering::addCells (not under contract: std::unordered_set): cellPred is the predecessor (or -1) of the first cell of a maximal run of window cells of one row and cellNext the first cell after the run (or -1), so both lie in that row and, when both are real cells, cellPred is strictly left of cellNext (rows are ordered: local invariant LWF of unit c02_dp_place); (-1, -1) is the window that covers a whole row",
               "only the assertions are under contract; the rest of addRow (boundaryAfter/boundaryBefore: unit c02_dp_queries; std::vector pushes) is cut at a must-fire anchor"]
[replay]
template = "replay/c07_addrow_whole_row.cpp"
search = true
inputs = []
@*/
#include "lower.h"
int verif_exc;
#define NMAX 1000
typedef struct { int *cellRow_; int *cellX_; int n; } PlacementView;
typedef struct { PlacementView *placement_; } RowReordering;
typedef struct { int row, cellPred, cellNext, minPos, maxPos; } ReorderingRegion;
static inline int Placement_cellRow(const RowReordering *this, int c) { return this->placement_->cellRow_[c]; }

void RowReordering_addRow_asserts(RowReordering *this, int row, int cellPred, int cellNext)
__CPROVER_requires(__CPROVER_is_fresh(this, sizeof(*this)) && __CPROVER_is_fresh(this->placement_, sizeof(PlacementView)) && 1 <= this->placement_->n && this->placement_->n <= NMAX)
__CPROVER_requires(__CPROVER_is_fresh(this->placement_->cellRow_, sizeof(int) * this->placement_->n) && __CPROVER_is_fresh(this->placement_->cellX_, sizeof(int) * this->placement_->n))
/* what addCells hands down */
__CPROVER_requires(-1 <= cellPred && cellPred < this->placement_->n && -1 <= cellNext && cellNext < this->placement_->n)
__CPROVER_requires(cellPred == -1 || this->placement_->cellRow_[cellPred] == row)
__CPROVER_requires(cellNext == -1 || this->placement_->cellRow_[cellNext] == row)
__CPROVER_requires((cellPred != -1 && cellNext != -1) ==> this->placement_->cellX_[cellPred] < this->placement_->cellX_[cellNext])
__CPROVER_assigns()
/*@extract
file = "src/place_detailed/place_detailed.cpp"
head = 'void RowReordering::addRow\(int row, int cellPred, int cellNext\)'
slice_to = 'newRow\.minPos = '
rewrites = [['placement_\.cellRow\(', 'Placement_cellRow(this, ', '2']]
@*/

void harness(void) { RowReordering *t; int row, p, n; RowReordering_addRow_asserts(t, row, p, n); REACH("end"); }
