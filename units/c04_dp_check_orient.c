/*@unit
properties = ["C04"]
mode = "dfcc"
enforce = "DetailedPlacement_check_orientation"
timeout = 600
function = "DetailedPlacement::check (third loop: orientation of every cell rowCells() lists against its polarity and row) (detailed_placement.cpp)"
assumptions = ["checker soundness: a normal return of the orientation loop of check() implies that every cell listed in a row by rowCells() sits in a row its polarity allows and has exactly the prescribed orientation (spec written from the property, prelude/spec/orient.h); check() is the last step of every detailed placement stage before export",
               "rowCells(row) (a std::vector built by walking the row chain) is a ghost array: the ghost row's list is arbitrary cell indices in range with an arbitrary ghost position, every other row lists arbitrary cells (over-approximation); that the chain from rowFirstCell_ reaches every cell of the row is the chain lemma of unit c02_dp_place",
               "type invariant: every stored cell polarity is one of the five declared enum values (instantiated at each listed cell); otherwise cellOrientationInRow reaches its abort()",
               "the structural loops of check() are unit c02_dp_check"]
[replay]
template = "replay/c02_detailed_history.cpp"
search = true
inputs = []
@*/
#include "lower.h"
int verif_exc;
/*@include units/inc/detailed_placement.inc @*/
#define NMAX 1000
#define RMAX 100
#define NC (this->cellWidth__size)
#define NR (this->rows__size)
#define DP_FRESH(p) (__CPROVER_is_fresh(p, sizeof(*p)) && 1 <= p->cellWidth__size && p->cellWidth__size <= NMAX && 1 <= p->rows__size && p->rows__size <= RMAX \
   && __CPROVER_is_fresh(p->rows_, sizeof(Row) * p->rows__size) \
   && __CPROVER_is_fresh(p->cellOrientation_, sizeof(CellOrientation) * p->cellWidth__size) && __CPROVER_is_fresh(p->cellRowPolarity_, sizeof(CellRowPolarity) * p->cellWidth__size))

int g_r, g_pos, g_c;   /* ghost row, ghost position in its cell list, the cell listed there */
int g_len; int *g_rowcells; int *g_rowsize; int g_n;
int nondet_int(void);
static inline int ROWCELL(int i, int k) { if (i == g_r) return g_rowcells[k]; int c = nondet_int(); __CPROVER_assume(0 <= c && c < g_n); return c; }
#define ROWSIZE(i) (g_rowsize[i])
/* the accepted states, from the property: not in a forbidden row, and the prescribed orientation when there is one */
#define ORIENT_OK(pol, rowo, co) (spec_orientation_in_row(pol, rowo) != CellOrientation_INVALID && (spec_orientation_in_row(pol, rowo) == CellOrientation_UNKNOWN || (co) == spec_orientation_in_row(pol, rowo)))

void DetailedPlacement_check_orientation(const DetailedPlacement *this)
__CPROVER_requires(DP_FRESH(this) && verif_exc == 0 && g_n == this->cellWidth__size)
__CPROVER_requires(__CPROVER_is_fresh(g_rowsize, this->rows__size * sizeof(int)))
__CPROVER_requires(0 <= g_r && g_r < this->rows__size && g_len == g_rowsize[g_r] && 0 <= g_len && g_len <= NMAX && __CPROVER_is_fresh(g_rowcells, g_len * sizeof(int)))
__CPROVER_requires(0 <= g_pos && g_pos < g_len && g_c == g_rowcells[g_pos] && 0 <= g_c && g_c < g_n)
/* polarities are one of the five declared values (type invariant of the enum member; set from the circuit's validated polarities) */
__CPROVER_requires(VALID_POLARITY(this->cellRowPolarity_[g_c]))
__CPROVER_ensures(!verif_exc ==> ORIENT_OK(this->cellRowPolarity_[g_c], this->rows_[g_r].orientation, this->cellOrientation_[g_c]))
__CPROVER_assigns(verif_exc)
/*@extract
file = "src/place_detailed/detailed_placement.cpp"
head = 'void DetailedPlacement::check\(\) const'
slice_from = 'for \(int i = 0; i < nbRows\(\); \+\+i\) \{\s*for \(int c : rowCells\(i\)\)'
this_members = {file = "src/place_detailed/detailed_placement.hpp", class = "DetailedPlacement"}
nloops = 2
rewrites = [['for \(int c : rowCells\(i\)\) \{', 'for (int _k = 0; _k < g_rs; ++_k) { int c = ROWCELL(i, _k);', '1']]
[[ghosts]]
at = 'before:1'
text = '''const CellRowPolarity s_pol = this->cellRowPolarity_[g_c]; const CellOrientation s_co = this->cellOrientation_[g_c]; const CellOrientation s_ro = this->rows_[g_r].orientation; const bool s_ok = ORIENT_OK(s_pol, s_ro, s_co);'''
[[ghosts]]
at = 'body_start:1'
text = '''const int g_rs = ROWSIZE(i); __CPROVER_assume(0 <= g_rs && g_rs <= NMAX);'''
[[ghosts]]
after = 'int c = ROWCELL\(i, _k\);'
text = '''__CPROVER_assume(0 <= c && c < NC); const CellRowPolarity g_pc = this->cellRowPolarity_[c]; __CPROVER_assume(VALID_POLARITY(g_pc)); /* INSTANTIATE cells_in_range: rowCells lists cells of the placement; polarity_valid(c): every stored polarity is one of the five declared values (type invariant of the enum member) */'''
[[loops]]
ordinal = 1
contract = '''
__CPROVER_assigns(i, verif_exc)
__CPROVER_loop_invariant(0 <= i && i <= NR && verif_exc == 0)
__CPROVER_loop_invariant(g_r < i ==> s_ok)
__CPROVER_decreases(NR - i)
'''
[[loops]]
ordinal = 2
contract = '''
__CPROVER_assigns(_k, verif_exc)
__CPROVER_loop_invariant(0 <= _k && _k <= g_rs && verif_exc == 0)
__CPROVER_loop_invariant((i == g_r && g_pos < _k) ==> s_ok)
__CPROVER_decreases(g_rs - _k)
'''
@*/

void harness(void) { DetailedPlacement *t; DetailedPlacement_check_orientation(t); REACH("end"); }
