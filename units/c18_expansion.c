/*@unit
properties = ["C18", "C19"]
mode = "dfcc"
enforce = "Circuit_expandCellsByFactor"
timeout = 900
solver = "kissat"
function = "Circuit::expandCellsToDensity, expandCellsByFactor, computeRowPlacementArea (per-row step), computeCellExpansion (coloquinte.cpp)"
variants = [
  {name = "byFactorStep", enforce = "factor_step", defines = ["H_FSTEP"]},
  {name = "rowAreaStep", properties = ["C18"], enforce = "row_area_step", defines = ["H_ROWAREA"], solver = "cvc5", split = true, timeout = 300},
  {name = "toDensityWidth", properties = ["C18"], enforce = "density_width", defines = ["H_DWIDTH"]},
  {name = "toDensityStep", properties = ["C18"], safety_tier = "thorough", enforce = "density_step", defines = ["H_DSTEP"]},
  {name = "toDensityFrame", properties = ["C18"], safety_tier = "thorough", enforce = "Circuit_expandCellsToDensity", defines = ["H_DFRAME"], replace = ["Circuit_computeRowPlacementArea"]},
]
assumptions = ["the whole-function variant of expandCellsByFactor (frame + refusal of a factor vector of the wrong length) was dropped from both tiers: its CNF is 316 MB and kissat does not finish within 2.5 CPU hours (DESIGN.md 10.9); the per-cell step (byFactorStep) stays",
               "the density cap ('utilisation not above the target beyond rounding', 'within one cell height of target*area') is a sum over all cells in double arithmetic: NOT decided here (the per-cell step is proved in two halves: the width is the capped fractional width rounded down, never below the old width under a sufficient cap; the carry receives exactly the AREA h * (fractional - integer width), whole units of width are taken back from it, it stays in [0, h); NOT proved: carry on exit = carry after the addition - h * units (exact repeated double subtraction)",
               "computeRowPlacementArea is replaced by a contract (non-negative area) in the two whole-function variants; computeCellExpansion (std::sort + structured bindings over pairs) is not under contract",
               "termination of the inner carry loop 'while (missingArea >= h)' is not proved (no integer variant over doubles)"]
@*/
#include "lower.h"
int verif_exc;
/*@include units/inc/circuit.inc @*/
#define NMAX 4096
int n, g;  /* g: ghost cell */
int g_oldw;
long long Circuit_computeRowPlacementArea(const Circuit *this, double rowSideMargin)
__CPROVER_requires(1)
__CPROVER_ensures(__CPROVER_return_value >= 0 && __CPROVER_return_value <= (1LL << 50))
__CPROVER_assigns();
#define computeRowPlacementArea(m) Circuit_computeRowPlacementArea(this, m)
#define CELLS_SHAPE (FRESH_THIS(Circuit) && 1 <= n && n <= NMAX && FRESH_ARR(cellWidth_, n, int) && FRESH_ARR(cellHeight_, n, int) && FRESH_ARR(cellIsFixed_, n, bool))

#ifdef H_FACTOR
float g_e;
/* by-value copy of a vector<float>: separate storage supplied by the precondition (contents re-established by the instantiated factor range) */
float *g_expansion_buf;
#undef VERIF_DUMMY
#define VERIF_DUMMY 0.0
double Circuit_expandCellsByFactor(Circuit *this, const float *expansionFactor, int expansionFactor_size, double maxDensity, double rowSideMargin)
__CPROVER_requires(CELLS_SHAPE && verif_exc == 0 && 0 <= expansionFactor_size && expansionFactor_size <= NMAX && __CPROVER_is_fresh(expansionFactor, expansionFactor_size * sizeof(float)) && __CPROVER_is_fresh(g_expansion_buf, NMAX * sizeof(float)))
__CPROVER_requires(0 <= g && g < n && g_oldw == cellWidth_[g] && MAGSZ(g_oldw) && MAGSZ(cellHeight_[g]) && maxDensity > 0.0 && maxDensity <= 1.0)
/* C19: one factor per cell, each at least 1, otherwise refused before anything changes */
__CPROVER_ensures(expansionFactor_size != n ==> verif_exc)
__CPROVER_ensures(verif_exc ==> cellWidth_[g] == g_oldw)
/* C18: only widths of movable cells change, and a movable cell never becomes narrower */
__CPROVER_ensures(cellIsFixed_[g] ==> cellWidth_[g] == g_oldw)
__CPROVER_assigns(verif_exc, __CPROVER_object_whole(cellWidth_), __CPROVER_object_whole(g_expansion_buf))
/*@extract
file = "src/coloquinte.cpp"
head = 'double Circuit::expandCellsByFactor\('
nloops = 4
rewrites = [['std::vector<float> expansion = expansionFactor;', 'float *expansion = g_expansion_buf;', '1'],
            ['for \(float &e : expansion\) \{', 'for (int _i_e = 0; _i_e < n; ++_i_e) { float *verif_ep = &expansion[_i_e];', '1'],
            ['e = 1\.0 \+ \(e - 1\.0\) \* ratio;', '*verif_ep = 1.0 + (*verif_ep - 1.0) * ratio; GHOST(__CPROVER_assert(!(ratio >= 0.0 && ratio <= 1.0) || *verif_ep >= 0.999f, "spec: the adjusted factor stays at least 1 (up to the input tolerance)");)', '1']]
[[loops]]
ordinal = 1
contract = '''
__CPROVER_assigns(_i_e, verif_exc)
__CPROVER_loop_invariant(0 <= _i_e && _i_e <= n && verif_exc == 0)
__CPROVER_loop_invariant(g < _i_e ==> !(expansionFactor[g] < 0.999f))
__CPROVER_decreases(n - _i_e)
'''
[[loops]]
ordinal = 2
contract = '''
__CPROVER_assigns(i, cellArea, expandedArea)
__CPROVER_loop_invariant(0 <= i && i <= n && 0 <= cellArea && cellArea <= (long long)i * (1LL << 31) && 0 <= expandedArea && expandedArea <= (long long)i * (1LL << 40))
__CPROVER_decreases(n - i)
'''
[[loops]]
ordinal = 3
contract = '''
__CPROVER_assigns(_i_e, __CPROVER_object_whole(expansion))
__CPROVER_loop_invariant(0 <= _i_e && _i_e <= n)
__CPROVER_loop_invariant(expansion[g] >= 0.999f)
__CPROVER_decreases(n - _i_e)
'''
[[loops]]
ordinal = 4
contract = '''
__CPROVER_assigns(i, __CPROVER_object_whole(cellWidth_))
__CPROVER_loop_invariant(0 <= i && i <= n)
__CPROVER_loop_invariant((cellIsFixed_[g] || g >= i) ==> cellWidth_[g] == g_oldw)
__CPROVER_decreases(n - i)
'''
[[ghosts]]
at = 'body_start:2'
text = '''GHOST(const int g_cw = cellWidth_[i]; const int g_ch = cellHeight_[i]; const float g_ef = expansionFactor[i];) __CPROVER_assume(MAGSZ(g_cw) && MAGSZ(g_ch) && (long long)g_cw * g_ch < (1LL << 31) && g_ef >= 0.999f && g_ef <= 256.0f); /* INSTANTIATE MAG(i): cell area below 2^31 (C07 domain), factor range (checked by loop 1) */'''
[[ghosts]]
at = 'body_start:4'
text = '''GHOST(const int g_cw4 = cellWidth_[i]; const float g_ex = expansion[i];) __CPROVER_assume(MAGSZ(g_cw4) && g_ex >= 0.999f && g_ex <= 256.0f); /* INSTANTIATE MAG(i), factor range: width * factor fits an int */'''
@*/
#endif

#ifdef H_FSTEP
/* the per-cell step of expandCellsByFactor (statement sliced from the repo) on one cell */
int g_wcell; float g_fcell;
int factor_step(int i)
__CPROVER_requires(i == 0 && 0 <= g_wcell && g_wcell <= 4194304 && g_fcell >= 1.0f && g_fcell <= 256.0f)
/* C18: a factor of at least 1 never makes the cell narrower (truncating update) */
__CPROVER_ensures(g_wcell >= __CPROVER_old(g_wcell))
__CPROVER_assigns(g_wcell)
#define cellWidth_ (&g_wcell)
#define expansion (&g_fcell)
/*@extract
file = "src/coloquinte.cpp"
head = 'double Circuit::expandCellsByFactor\('
slice_from = 'cellWidth_\[i\] \*= expansion\[i\];'
slice_to = '\}\s*\}\s*return expandedDensity / density;'
[[ghosts]]
at = 'end'
text = '''return g_wcell;'''
@*/
#undef cellWidth_
#undef expansion
#endif

#ifdef H_ROWAREA
/* per-row step of computeRowPlacementArea (loop body sliced from the repo) */
long long g_area0, g_wcount; double g_x;
void row_area_step(Rectangle r, double rowSideMargin, long long *rowArea_p)
__CPROVER_requires(__CPROVER_is_fresh(rowArea_p, sizeof(long long)) && MAGV(r.minX) && MAGV(r.maxX) && MAGV(r.minY) && MAGV(r.maxY) && r.minX <= r.maxX && r.minY <= r.maxY)
__CPROVER_requires(rowSideMargin >= 0.0 && rowSideMargin <= 1.0e3 && 0 <= *rowArea_p && *rowArea_p <= (1LL << 50) && g_area0 == *rowArea_p)
/* C18 (free row area AFTER THE SIDE MARGIN): the width counted for a row is the real-valued width minus 2 * margin * height, rounded
 * towards zero (never more than that), rows that the margin removes entirely count for nothing, and the area grows by width x height */
__CPROVER_requires(g_x == (double)(long long)(r.maxX - r.minX) - 2 * rowSideMargin * (long long)(r.maxY - r.minY))
__CPROVER_ensures(g_x >= 0.0 ==> ((double)g_wcount <= g_x && g_x - (double)g_wcount < 1.0))
__CPROVER_ensures(g_x < 0.0 ==> g_wcount <= 0)
__CPROVER_ensures(*rowArea_p == g_area0 + (g_wcount > 0 ? g_wcount * (long long)(r.maxY - r.minY) : 0))
__CPROVER_assigns(*rowArea_p, g_wcount)
/*@extract
file = "src/coloquinte.cpp"
head = 'long long Circuit::computeRowPlacementArea\(double rowSideMargin\) const'
slice_from = 'long long h = r\.height\(\);'
slice_to = '\}\s*return rowArea;'
rewrites = [['\br\.(height|width)\(\)', 'Rectangle_\1(r)', '2+'], ['\browArea\b', '(*rowArea_p)', '1+']]
[[ghosts]]
after = 'w -= [^;]*;'
text = """GHOST(g_wcount = w;)"""
@*/
#endif

#ifdef H_DWIDTH
/* first half of the per-cell step of expandCellsToDensity: the capped fractional width and its integer part */
double g_fracW;
int density_width(int h, int w, double expansionFactor, double maxCellWidth)
__CPROVER_requires(1 <= h && h <= 4194304 && 1 <= w && w <= 4194304 && expansionFactor > 1.0 && expansionFactor <= 1.0e6 && maxCellWidth >= 1.0 && maxCellWidth <= 1.0e9)
/* C18: never narrower when the cap is not below the current width; the width before the carry is the capped fractional width rounded down */
__CPROVER_ensures(maxCellWidth >= (double)w ==> __CPROVER_return_value >= w)
__CPROVER_ensures(g_fracW >= 1.0 && g_fracW <= 1.0e9 && g_fracW <= maxCellWidth && __CPROVER_return_value >= 1 && (double)__CPROVER_return_value <= g_fracW && g_fracW - (double)__CPROVER_return_value < 1.0)
__CPROVER_assigns(g_fracW)
/*@extract
file = "src/coloquinte.cpp"
head = 'void Circuit::expandCellsToDensity\('
slice_from = 'double fracW = w \* expansionFactor;'
slice_to = '(?<=int newW = \(int\)fracW;)'
[[ghosts]]
at = 'end'
text = """GHOST(g_fracW = fracW;) return newW;"""
@*/
#endif

#ifdef H_DSTEP
/* second half of the per-cell step (loop body sliced from the repo): the carry, from an arbitrary carry and an arbitrary capped fractional width */
double g_in, g_m1; int g_new0, g_K; long long g_P;   /* ghost: carry on entry, integer part of the width, width units added from the carry and their area */
int density_step(int h, double fracW, double *carry_p)
__CPROVER_requires(__CPROVER_is_fresh(carry_p, sizeof(double)) && 1 <= h && h <= 4194304 && fracW >= 1.0 && fracW <= 1.0e9)
__CPROVER_requires(*carry_p >= 0.0 && *carry_p <= 4194304.0 && g_in == *carry_p && g_K == 0 && g_P == 0)
/* C18 (utilisation never above the target beyond rounding; movable area within one cell height of the target): the carry is an AREA:
 * it receives exactly h * (fractional width - integer width) (g_m1 = carry right after that addition), it stays below one row of the cell,
 * and g_K whole units of width are taken back from it.  NOT proved: that the carry on exit equals g_m1 - h * g_K (repeated exact
 * subtraction in double arithmetic: no back end finishes) */
__CPROVER_ensures(*carry_p >= 0.0 && *carry_p < (double)h)
__CPROVER_ensures(__CPROVER_return_value == g_new0 + g_K && g_K >= 0 && g_new0 >= 1 && (double)g_new0 <= fracW && fracW - (double)g_new0 < 1.0)
__CPROVER_ensures(g_m1 == g_in + (double)h * (fracW - (double)g_new0) && *carry_p <= g_m1)
__CPROVER_assigns(*carry_p, g_new0, g_K, g_P, g_m1)
/*@extract
file = "src/coloquinte.cpp"
head = 'void Circuit::expandCellsToDensity\('
captures = [['CARRY', 'double (\w+) = 0\.0;\s*for \(int i = 0; i < nbCells\(\); \+\+i\) \{\s*if \(!cellIsFixed_\[i\]\)']]
slice_from = 'int newW = \(int\)fracW;'
slice_to = 'cellWidth_\[i\] = newW;'
rewrites = [['\b${CARRY}\b', '(*carry_p)', '1+']]
[[loops]]
ordinal = 1
optional = true
contract = """
__CPROVER_assigns(newW, *carry_p, g_K, g_P)
__CPROVER_loop_invariant(*carry_p >= 0.0 && 0 <= g_K && g_K <= 8388609 && newW == g_new0 + g_K && *carry_p <= 8388609.0 - (double)g_K && *carry_p <= g_m1 && 0 <= g_P && g_P <= (long long)g_K * 4194304)
"""
[[ghosts]]
after = 'int newW = \(int\)fracW;'
text = """GHOST(g_new0 = newW;)"""
[[ghosts]]
after = '\(\*carry_p\) \+= [^;]*;'
text = """GHOST(g_m1 = *carry_p;)"""
[[ghosts]]
after = '\+\+newW;'
count = '1+'
text = """GHOST(g_K++; g_P += h;)"""
[[ghosts]]
at = 'end'
text = """return newW;"""
@*/
#endif

#ifdef H_DFRAME
void Circuit_expandCellsToDensity(Circuit *this, double targetDensity, double rowSideMargin, double maxExpandedWidth)
__CPROVER_requires(CELLS_SHAPE && 0 <= g && g < n && g_oldw == cellWidth_[g])
__CPROVER_requires(rows__size >= 0 && rows__size <= 1000 && __CPROVER_is_fresh(rows_, rows__size * sizeof(Row)))
__CPROVER_requires(targetDensity > 0.0 && targetDensity < 1.0 && maxExpandedWidth >= 0.0 && maxExpandedWidth <= 1.0)
/* C18: only the widths of movable cells change */
__CPROVER_ensures(cellIsFixed_[g] ==> cellWidth_[g] == g_oldw)
__CPROVER_assigns(__CPROVER_object_whole(cellWidth_))
/*@extract
file = "src/coloquinte.cpp"
head = 'void Circuit::expandCellsToDensity\('
captures = [['CARRY', 'double (\w+) = 0\.0;\s*for \(int i = 0; i < nbCells\(\); \+\+i\) \{\s*if \(!cellIsFixed_\[i\]\)']]
rewrites = [['row\.width\(\)', 'Rectangle_width(row)', '1+']]
[[loops]]
ordinal = 1
contract = '''
__CPROVER_assigns(i, cellArea)
__CPROVER_loop_invariant(0 <= i && i <= n && 0 <= cellArea && cellArea <= (long long)i * (1LL << 31))
__CPROVER_decreases(n - i)
'''
[[loops]]
ordinal = 2
contract = '''
__CPROVER_assigns(_i_row, maxRowWidth)
__CPROVER_loop_invariant(0 <= _i_row && _i_row <= rows__size && 0 <= maxRowWidth && maxRowWidth <= 8388608)
__CPROVER_decreases(rows__size - _i_row)
'''
[[loops]]
ordinal = 3
contract = '''
__CPROVER_assigns(i, ${CARRY}, __CPROVER_object_whole(cellWidth_))
__CPROVER_loop_invariant(0 <= i && i <= n && ${CARRY} >= 0.0 && ${CARRY} <= 4194304.0)
__CPROVER_loop_invariant((cellIsFixed_[g] || g >= i) ==> cellWidth_[g] == g_oldw)
__CPROVER_decreases(n - i)
'''
[[loops]]
ordinal = 4
optional = true
contract = '''
__CPROVER_assigns(newW, ${CARRY})
__CPROVER_loop_invariant(${CARRY} >= 0.0 && ${CARRY} <= 8388609.0 && newW >= 0 && newW <= 1100000000 && ${CARRY} <= 1100000000.0 - (double)newW)
'''
[[ghosts]]
at = 'body_start:1'
text = '''GHOST(const int g_cw = cellWidth_[i]; const int g_ch = cellHeight_[i];) __CPROVER_assume(MAGSZ(g_cw) && MAGSZ(g_ch) && (long long)g_cw * g_ch < (1LL << 31)); /* INSTANTIATE MAG(i) */'''
[[ghosts]]
after = 'Row row = rows_\[_i_row\];'
text = '''__CPROVER_assume(MAGV(row.minX) && MAGV(row.maxX)); /* INSTANTIATE MAG(row) */'''
[[ghosts]]
at = 'body_start:3'
text = '''GHOST(const int g_cw3 = cellWidth_[i]; const int g_ch3 = cellHeight_[i];) __CPROVER_assume(g_cw3 <= 4194304 && g_ch3 <= 4194304 && expansionFactor <= 1.0e6); /* INSTANTIATE MAG(i); the factor bound is the domain of the step lemma (toDensityStep) */'''
@*/
#endif

void harness(void) {
  Circuit *c; float *f; int k; double d1, d2, d3; double *mp; int h, w;
#if defined(H_FACTOR)
  Circuit_expandCellsByFactor(c, f, k, d1, d2);
#elif defined(H_FSTEP)
  factor_step(k);
#elif defined(H_DSTEP)
  density_step(h, d1, mp);
#elif defined(H_DWIDTH)
  density_width(h, w, d1, d2);
#elif defined(H_ROWAREA)
  Rectangle rr; long long *ap; row_area_step(rr, d1, ap);
#else
  Circuit_expandCellsToDensity(c, d1, d2, d3);
#endif
  REACH("end");
}
