/*@unit
properties = ["C14"]
safety = ["C07", "C14"]   # C14: "never touches memory outside its result"
mode = "dfcc"
enforce = "Sorter_convertAssignmentBack"
timeout = 300
function = "Transportation1dSolver::updateOptimalSink, Transportation1dSorter::convertAssignmentBack, Transportation1dSolver::computeAssignment, flushPositions, Transportation1d::balanceDemand (transportation_1d.cpp)"
variants = [
  {name = "convertBack", enforce = "Sorter_convertAssignmentBack", defines = ["H_CONVERT"]},
  {name = "computeAssignment", enforce = "Solver_computeAssignment", defines = ["H_ASSIGN"]},
  {name = "flush", enforce = "Solver_flushPositions", defines = ["H_FLUSH"], replace = ["T1d_totalDemand"]},
  {name = "optimalSink", enforce = "Solver_updateOptimalSink", defines = ["H_OPTSINK"], replace = ["Solver_cost"]},
  {name = "balance", enforce = "T1d_balanceDemand", defines = ["H_BALANCE"], replace = ["T1d_totalDemand", "T1d_totalSupply"], solver = "kissat"},
]
assumptions = ["optimality of the plan (the sweep of Transportation1dSolver::run/push/pushOnce over a priority queue of events) is NOT decided: no per-function contract short of an LP-duality invariant, and a bounded stand-in does not fit (DESIGN.md section 1); solve() additionally runs the repo's own checkSolutionValid/checkSolutionOptimal, which are not under contract either (tuple vectors with running sums)",
               "std::vector::assign(n, v) is modelled as: fresh storage of n entries, every entry equal to v (instantiated at the ghost index)",
               "Transportation1dSorter constructor (std::sort of pairs) is not under contract: its result is assumed as the named invariant 'srcOrder/snkOrder list the positive sources/sinks, in range'"]
[replay]
template = "replay/c14_transport_bruteforce.cpp"
search = true
inputs = []
sources = ["place_global/transportation_1d.cpp"]
@*/
#include "lower.h"
int verif_exc;
#define NMAX 4096
/*@struct
file = "src/place_global/transportation_1d.hpp"
class = "Transportation1dSorter"
need = ["srcOrder", "snkOrder"]
@*/
/*@struct
file = "src/place_global/transportation_1d.hpp"
class = "Transportation1dSolver"
cname = "Solver"
bases = [{class = "Transportation1d"}]
need = ["u", "v", "s", "d", "S", "D", "p"]
@*/
#define FRESHV(ptr, cnt, T) __CPROVER_is_fresh(ptr, (cnt) * sizeof(T))
int g, g_q;   /* ghost indices */
bool g_notkept;  /* ghost: the original source g_q is not among the kept (positive-supply) sources */

#ifdef H_CONVERT
int *g_ret; int g_ret_size; int g_default; int g_ag, g_sog;
int g_nsrc;   /* ghost: number of sources of the original problem (u.size()) */
#define VEC_ASSIGN_FILL(n_, v_) do { ret = g_ret; ret_size = (n_); g_default = (v_); __CPROVER_assume(ret[g_q] == g_default); /* model of assign(n, v) at the ghost index */ } while (0)
void Sorter_convertAssignmentBack(const Transportation1dSorter *this, const int *a, int a_size)
__CPROVER_requires(__CPROVER_is_fresh(this, sizeof(*this)) && 0 <= g_nsrc && g_nsrc <= NMAX && 0 <= this->srcOrder_size && this->srcOrder_size <= g_nsrc && 0 <= this->snkOrder_size && this->snkOrder_size <= NMAX)
#ifdef HAS_Transportation1dSorter_nbSources_
__CPROVER_requires(this->nbSources_ == g_nsrc)   /* the sorter remembers the number of original sources (set by its constructor) */
#endif
__CPROVER_requires(FRESHV(this->srcOrder, this->srcOrder_size, int) && FRESHV(this->snkOrder, this->snkOrder_size, int) && a_size == this->srcOrder_size && FRESHV(a, a_size, int) && FRESHV(g_ret, g_nsrc, int))
/* ghost kept source g (position in the sorted order) and ghost original source g_q */
__CPROVER_requires(0 <= g_q && g_q < g_nsrc && (a_size == 0 || (0 <= g && g < a_size)))
/* srcOrder is injective at g_q: at most the position g maps to it (distinct original indices) */
__CPROVER_ensures(g_ret_size == g_nsrc)
/* every original source gets exactly one sink, also the ones without supply; a kept source gets the sink the solver chose */
__CPROVER_requires(a_size == 0 || (g_ag == a[g] && 0 <= g_ag && g_ag < this->snkOrder_size && g_sog == this->srcOrder[g] && 0 <= g_sog && g_sog < g_nsrc))
__CPROVER_ensures((a_size > 0 && g_sog == g_q) ==> g_ret[g_q] == this->snkOrder[g_ag])
__CPROVER_ensures((a_size == 0 || g_notkept) ==> (g_ret[g_q] == g_default && (this->snkOrder_size == 0 ? g_default == 0 : g_default == this->snkOrder[0])))
__CPROVER_assigns(__CPROVER_object_whole(g_ret), g_ret_size, g_default)
/*@extract
file = "src/place_global/transportation_1d.cpp"
head = 'std::vector<int> Transportation1dSorter::convertAssignmentBack\('
this_members = {file = "src/place_global/transportation_1d.hpp", class = "Transportation1dSorter"}
nloops = 1
rewrites = [['std::vector<int> ret;', 'int *ret; int ret_size;', '1'], ['ret\.assign\(([^;]*)\);', 'VEC_ASSIGN_FILL(\1);', '*'], ['ret\.resize\(([^;]*)\);', 'VEC_ASSIGN_FILL(\1, 0);', '*'],
            ['snkOrder\.front\(\)', 'snkOrder[0]', '*'], ['size_t i = 0; i < a\.size\(\)', 'int i = 0; i < a_size', '1'], ['return ret;', 'g_ret_size = ret_size; return;', '1']]
[[loops]]
ordinal = 1
contract = '''
__CPROVER_assigns(i, __CPROVER_object_whole(g_ret))
__CPROVER_loop_invariant(0 <= i && i <= a_size)
__CPROVER_loop_invariant((a_size > 0 && g < i && g_sog == g_q) ==> ret[g_q] == this->snkOrder[g_ag])
__CPROVER_loop_invariant((a_size == 0 || g_notkept) ==> ret[g_q] == g_default)
__CPROVER_decreases(a_size - i)
'''
[[ghosts]]
at = 'body_start:1'
text = '''GHOST(const int g_so = this->srcOrder[i]; const int g_ai = a[i];) __CPROVER_assume(0 <= g_so && g_so < g_nsrc && 0 <= g_ai && g_ai < this->snkOrder_size); GHOST(const int g_sg = this->srcOrder[g];) __CPROVER_assume((i == g || g_so != g_sg) && (!g_notkept || g_so != g_q)); /* INSTANTIATE: a[i] names a kept sink (computeAssignment), srcOrder is injective, g_q is not a kept source when g_notkept */'''
@*/
#endif

#ifdef H_ASSIGN
int *g_ret; int ns, nk; long long g_dlast;
void Solver_computeAssignment(const Solver *this)
__CPROVER_requires(__CPROVER_is_fresh(this, sizeof(*this)) && 0 <= ns && ns <= NMAX && 1 <= nk && nk <= NMAX)
__CPROVER_requires(this->p_size == ns && FRESHV(this->p, ns, long long) && this->S_size == ns + 1 && FRESHV(this->S, ns + 1, long long) && this->s_size == ns && FRESHV(this->s, ns, long long) && this->D_size == nk + 1 && FRESHV(this->D, nk + 1, long long) && FRESHV(g_ret, ns, int))
__CPROVER_requires(g_dlast == this->D[nk] && 0 <= g_dlast && g_dlast <= (1LL << 50) && 0 <= g && g < ns)
/* rounding: the middle of source g lies inside the sink it is assigned to */
__CPROVER_ensures(ns == 0 || (0 <= g_ret[g] && g_ret[g] < nk))
__CPROVER_assigns(__CPROVER_object_whole(g_ret))
/*@extract
file = "src/place_global/transportation_1d.cpp"
head = 'std::vector<int> Transportation1dSolver::computeAssignment\(\) const'
this_members = {file = "src/place_global/transportation_1d.hpp", class = "Transportation1dSolver"}
nloops = 2
rewrites = [['std::vector<int> ret\(p\.size\(\)\);', 'int *ret = g_ret;', '1'], ['size_t i = 0; i < p\.size\(\)', 'int i = 0; i < this->p_size', '1'], ['return ret;', 'return;', '1'],
            ['\b(p|S|s|D)\[', 'this->\1[', '4+']]
[[loops]]
ordinal = 1
contract = '''
__CPROVER_assigns(i, currentSink, __CPROVER_object_whole(g_ret))
__CPROVER_loop_invariant(0 <= i && i <= ns && 0 <= currentSink && currentSink < nk)
__CPROVER_loop_invariant(g < i ==> (0 <= ret[g] && ret[g] < nk))
__CPROVER_decreases(ns - i)
'''
[[loops]]
ordinal = 2
contract = '''
__CPROVER_assigns(currentSink)
__CPROVER_loop_invariant(0 <= currentSink && currentSink < nk)
__CPROVER_decreases(nk - currentSink)
'''
[[ghosts]]
at = 'body_start:1'
text = '''GHOST(const long long g_pi = this->p[i]; const long long g_Si = this->S[i]; const long long g_Si1 = this->S[i + 1]; const long long g_si = this->s[i];) __CPROVER_assume(g_pi >= 0 && g_pi <= (1LL << 50) && g_Si >= 0 && g_Si <= (1LL << 50) && g_si > 0 && g_si <= (1LL << 50) && g_Si1 >= 0 && g_Si1 <= (1LL << 51)); __CPROVER_assume(g_Si1 == g_Si + g_si && g_pi + g_Si1 <= g_dlast); /* INSTANTIATE: positive supplies (sorter), S = prefix sums (setupData), flushPositions: p[i] + S[i+1] <= D.back() */'''
[[ghosts]]
at = 'body_start:2'
text = '''GHOST(const long long g_Dn = this->D[currentSink + 1];) __CPROVER_assume(currentSink + 1 < nk || g_Dn == g_dlast); /* D[nk] is D.back() */'''
@*/
#endif

#ifdef H_FLUSH
long long g_total; int ns; long long g_sn;
long long T1d_totalDemand(const Solver *this)
__CPROVER_requires(1) __CPROVER_ensures(__CPROVER_return_value == g_total) __CPROVER_assigns();
void Solver_flushPositions(Solver *this)
__CPROVER_requires(__CPROVER_is_fresh(this, sizeof(*this)) && 0 <= ns && ns <= NMAX && this->p_size == ns && FRESHV(this->p, ns, long long) && this->S_size == ns + 1 && FRESHV(this->S, ns + 1, long long))
__CPROVER_requires(0 <= g_total && g_total <= (1LL << 50) && g_sn == this->S[ns] && 0 <= g_sn && g_sn <= g_total && 0 <= g && g < ns - 1)
/* positions are non-decreasing and bounded by the free capacity to the right */
__CPROVER_ensures(this->p[g] <= this->p[g + 1] && this->p[g + 1] <= g_total - g_sn)
__CPROVER_assigns(__CPROVER_object_whole(this->p))
/*@extract
file = "src/place_global/transportation_1d.cpp"
head = 'void Transportation1dSolver::flushPositions\(\)'
this_members = {file = "src/place_global/transportation_1d.hpp", class = "Transportation1dSolver"}
nloops = 1
rewrites = [['\btotalDemand\(\)', 'T1d_totalDemand(this)', '1']]
[[loops]]
ordinal = 1
contract = '''
__CPROVER_assigns(i, maxPos, __CPROVER_object_whole(this->p))
__CPROVER_loop_invariant(-1 <= i && i <= ns - 1 && maxPos <= g_total - g_sn)
__CPROVER_loop_invariant(i < ns - 1 ==> this->p[i + 1] == maxPos)
__CPROVER_loop_invariant(g > i ==> (this->p[g] <= this->p[g + 1] && this->p[g + 1] <= g_total - g_sn))
__CPROVER_decreases(i + 1)
'''
@*/
#endif

#ifdef H_OPTSINK
int nk, ns;
/* cost(i, j) = |u[i] - v[j]| for the source at hand, as a ghost array over the sinks (cost() itself is a one-line accessor) */
long long *g_cost;
long long Solver_cost(const Solver *this, int i, int j)
__CPROVER_requires(0 <= j && j < nk)
__CPROVER_ensures(__CPROVER_return_value == g_cost[j])
__CPROVER_assigns();
#define cost(i, j) Solver_cost(this, i, j)
void Solver_updateOptimalSink(Solver *this, int i)
__CPROVER_requires(__CPROVER_is_fresh(this, sizeof(*this)) && 1 <= nk && nk <= NMAX && this->v_size == nk && __CPROVER_is_fresh(g_cost, nk * sizeof(long long)))
__CPROVER_requires(0 <= this->optimalSink && this->optimalSink < nk)
/* the optimal sink only moves right, stays in range, and is a strict local optimum to the right: the next sink is strictly farther
 * (so among sinks at the same position the LAST one is chosen - the sweep relies on it to stay minimum-cost with duplicate positions) */
__CPROVER_ensures(__CPROVER_old(this->optimalSink) <= this->optimalSink && this->optimalSink < nk)
__CPROVER_ensures(this->optimalSink + 1 == nk || g_cost[this->optimalSink] < g_cost[this->optimalSink + 1])
__CPROVER_assigns(this->optimalSink)
/*@extract
file = "src/place_global/transportation_1d.cpp"
head = 'void Transportation1dSolver::updateOptimalSink\(int i\)'
this_members = {file = "src/place_global/transportation_1d.hpp", class = "Transportation1dSolver"}
nloops = 1
rewrites = [['\bnbSinks\(\)', 'this->v_size', '1+']]
[[loops]]
ordinal = 1
contract = '''
__CPROVER_assigns(j)
__CPROVER_loop_invariant(g_j0 <= j && j < nk)
__CPROVER_decreases(nk - j)
'''
[[ghosts]]
at = 'before:1'
text = '''GHOST(const int g_j0 = j;)'''
@*/
#undef cost
#endif

#ifdef H_BALANCE
long long g_supply, g_demand; int nk; long long g_oldd;
long long T1d_totalDemand(const Solver *this)
__CPROVER_requires(1) __CPROVER_ensures(__CPROVER_return_value == g_demand) __CPROVER_assigns();
long long T1d_totalSupply(const Solver *this)
__CPROVER_requires(1) __CPROVER_ensures(__CPROVER_return_value == g_supply) __CPROVER_assigns();
void T1d_balanceDemand(Solver *this)
__CPROVER_requires(__CPROVER_is_fresh(this, sizeof(*this)) && 1 <= nk && nk <= NMAX && this->v_size == nk && this->d_size == nk && FRESHV(this->d, nk, long long))
__CPROVER_requires(0 <= g_supply && g_supply <= (1LL << 50) && 0 <= g_demand && g_demand <= (1LL << 50) && 0 <= g && g < nk && g_oldd == this->d[g] && 0 <= g_oldd && g_oldd <= (1LL << 50))
/* demands only grow, each by the common share or one more; nothing changes when the demand already covers the supply */
__CPROVER_ensures(this->d[g] >= g_oldd)
__CPROVER_ensures(g_supply <= g_demand ==> this->d[g] == g_oldd)
__CPROVER_assigns(__CPROVER_object_whole(this->d))
/*@extract
file = "src/place_global/transportation_1d.cpp"
head = 'void Transportation1d::balanceDemand\(\)'
this_members = {file = "src/place_global/transportation_1d.hpp", class = "Transportation1d"}
nloops = 2
rewrites = [['\btotalSupply\(\)', 'T1d_totalSupply(this)', '1'], ['\btotalDemand\(\)', 'T1d_totalDemand(this)', '1'], ['\bnbSinks\(\)', 'this->v_size', '1+']]
[[loops]]
ordinal = 1
contract = '''
__CPROVER_assigns(i, __CPROVER_object_whole(this->d))
__CPROVER_loop_invariant(0 <= i && i <= nk)
__CPROVER_loop_invariant(this->d[g] == g_oldd + (g < i ? added : 0))
__CPROVER_decreases(nk - i)
'''
[[loops]]
ordinal = 2
contract = '''
__CPROVER_assigns(i, __CPROVER_object_whole(this->d))
__CPROVER_loop_invariant(0 <= i && i <= missing && missing < nk)
__CPROVER_loop_invariant(this->d[g] == g_oldd + added + (g < i ? 1 : 0))
__CPROVER_decreases(missing - i)
'''
[[ghosts]]
at = 'body_start:1'
text = '''GHOST(const long long g_di = this->d[i];) __CPROVER_assume(0 <= g_di && g_di <= (1LL << 50)); /* INSTANTIATE MAG(i) */'''
[[ghosts]]
at = 'body_start:2'
text = '''GHOST(const long long g_di2 = this->d[i];) __CPROVER_assume(0 <= g_di2 && g_di2 <= (1LL << 52)); /* INSTANTIATE MAG(i) */'''
@*/
#endif

void harness(void) {
  Transportation1dSorter *so; Solver *sv; int *a; int k;
#if defined(H_CONVERT)
  Sorter_convertAssignmentBack(so, a, k);
#elif defined(H_ASSIGN)
  Solver_computeAssignment(sv);
#elif defined(H_FLUSH)
  Solver_flushPositions(sv);
#elif defined(H_OPTSINK)
  Solver_updateOptimalSink(sv, k);
#else
  T1d_balanceDemand(sv);
#endif
  REACH("end");
}
