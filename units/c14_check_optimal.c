/*@unit
properties = ["C14"]
safety = ["C07", "C14"]
mode = "dfcc"
enforce = "Solver_checkOptimal_chains"
timeout = 600
function = "Transportation1dSolver::checkSolutionOptimal (the two chain-move loops, sliced) (transportation_1d.cpp): arithmetic safety of the gain accumulation with LLONG_MIN sentinels"
assumptions = ["named invariant established by the three loops before the slice: gainRight[j] / gainLeft[j] are the sentinel LLONG_MIN or a cost difference (|.| <= 2^41); a sink with used capacity > 0 that has a right (left) neighbour has a non-sentinel gainRight (gainLeft); demands are positive (Transportation1dSolver::check)",
               "only safety (no signed overflow, in-bounds reads, termination) is claimed for this function; that it rejects every non-optimal plan is not"]
[replay]
template = "replay/c14_transport_bruteforce.cpp"
search = true
inputs = []
sources = ["place_global/transportation_1d.cpp"]
@*/
#include "lower.h"
int verif_exc;
#define NMAX 4096
/*@struct
file = "src/place_global/transportation_1d.hpp"
class = "Transportation1dSolver"
cname = "Solver"
bases = [{class = "Transportation1d"}]
need = ["v", "d"]
@*/
int nk;
#define GAIN_OK(x) ((x) == LLONG_MIN || ((x) >= -(1LL << 41) && (x) <= (1LL << 41)))
void Solver_checkOptimal_chains(const Solver *this, const long long *usedCap, const long long *gainRight, const long long *gainLeft)
__CPROVER_requires(__CPROVER_is_fresh(this, sizeof(*this)) && verif_exc == 0 && 1 <= nk && nk <= NMAX && this->v_size == nk && this->d_size == nk && __CPROVER_is_fresh(this->d, nk * sizeof(long long)))
__CPROVER_requires(__CPROVER_is_fresh(usedCap, nk * sizeof(long long)) && __CPROVER_is_fresh(gainRight, nk * sizeof(long long)) && __CPROVER_is_fresh(gainLeft, nk * sizeof(long long)))
__CPROVER_assigns(verif_exc)
/*@extract
file = "src/place_global/transportation_1d.cpp"
head = 'void Transportation1dSolver::checkSolutionOptimal\(const Solution &alloc\) const'
slice_from = 'for \(int snk = 0; snk \+ 1 < nbSinks\(\); \+\+snk\)'
this_members = {file = "src/place_global/transportation_1d.hpp", class = "Transportation1d"}
nloops = 4
rewrites = [['\bnbSinks\(\)', 'this->v_size', '1+']]
[[loops]]
ordinal = 1
contract = '''
__CPROVER_assigns(snk, verif_exc)
__CPROVER_loop_invariant(0 <= snk && snk <= nk && verif_exc == 0)
__CPROVER_decreases(nk - snk)
'''
[[loops]]
ordinal = 2
contract = '''
__CPROVER_assigns(nxt, gain, snk, verif_exc)
__CPROVER_loop_invariant(g_snk0 < nxt && nxt <= nk && snk == g_snk0 && verif_exc == 0 && gain >= -(long long)(nxt - g_snk0) * (1LL << 41) && gain <= (long long)(nxt - g_snk0) * (1LL << 41))
__CPROVER_decreases(nk - nxt)
'''
[[loops]]
ordinal = 3
contract = '''
__CPROVER_assigns(snk, verif_exc)
__CPROVER_loop_invariant(0 <= snk && snk <= nk - 1 && verif_exc == 0)
__CPROVER_decreases(snk)
'''
[[loops]]
ordinal = 4
contract = '''
__CPROVER_assigns(nxt, gain, snk, verif_exc)
__CPROVER_loop_invariant(-1 <= nxt && nxt < g_snk1 && snk == g_snk1 && verif_exc == 0 && gain >= -(long long)(g_snk1 - nxt) * (1LL << 41) && gain <= (long long)(g_snk1 - nxt) * (1LL << 41))
__CPROVER_decreases(nxt + 1)
'''
[[ghosts]]
after = 'long long gain = gainRight\[snk\];'
text = '''GHOST(const int g_snk0 = snk; const long long g_uc = usedCap[snk];) __CPROVER_assume(g_uc >= 0 && GAIN_OK(gain) && (g_uc > 0 ==> gain != LLONG_MIN)); /* INSTANTIATE gain invariant at snk (snk + 1 < nbSinks here) */'''
[[ghosts]]
at = 'body_start:2'
text = '''GHOST(const long long g_ucn = usedCap[nxt]; const long long g_dn = this->d[nxt]; const long long g_grn = gainRight[nxt];) __CPROVER_assume(g_ucn >= 0 && g_dn > 0 && GAIN_OK(g_grn) && ((g_ucn > 0 && nxt + 1 < nk) ==> g_grn != LLONG_MIN)); /* INSTANTIATE gain invariant at nxt */'''
[[ghosts]]
after = 'long long gain = gainLeft\[snk\];'
text = '''GHOST(const int g_snk1 = snk; const long long g_uc1 = usedCap[snk];) __CPROVER_assume(g_uc1 >= 0 && GAIN_OK(gain) && (g_uc1 > 0 ==> gain != LLONG_MIN)); /* INSTANTIATE gain invariant at snk (snk >= 1 here) */'''
[[ghosts]]
at = 'body_start:4'
text = '''GHOST(const long long g_ucn4 = usedCap[nxt]; const long long g_dn4 = this->d[nxt]; const long long g_gln = gainLeft[nxt];) __CPROVER_assume(g_ucn4 >= 0 && g_dn4 > 0 && GAIN_OK(g_gln) && ((g_ucn4 > 0 && nxt >= 1) ==> g_gln != LLONG_MIN)); /* INSTANTIATE gain invariant at nxt */'''
@*/

void harness(void) { Solver *s; long long *a, *b, *c; Solver_checkOptimal_chains(s, a, b, c); REACH("end"); }
