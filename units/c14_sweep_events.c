/*@unit
properties = ["C14"]
mode = "dfcc"
enforce = "Solver_pushNewSinkEvents"
timeout = 300
function = "Transportation1dSolver::pushNewSinkEvents, pushToLastSink, getSlope, pushNewSourceEvents (transportation_1d.cpp): the event queue of the sweep only ever holds breakpoints in (0, lastPosition] - the queue invariant on which reading the slope at the current position (getSlope) and moving left to the next breakpoint (pushToLastSink) rest"
variants = [
  {name = "newSinkEvents", enforce = "Solver_pushNewSinkEvents", defines = ["H_NEWSINK"]},
  {name = "toLastSink", enforce = "Solver_pushToLastSink", defines = ["H_LASTSINK"], replace = ["Solver_getSlope"]},
  {name = "getSlope", enforce = "Solver_getSlope", defines = ["H_SLOPE"]},
  {name = "newSourceEvents", enforce = "Solver_pushNewSourceEvents", defines = ["H_NEWSRC"]},
]
assumptions = ["std::priority_queue<Event> is abstracted by its size and the position of its top (the largest stored position); a pop reveals an arbitrary smaller-or-equal positive position; slopes are arbitrary",
               "cost(i, j) / delta(i, j) are arbitrary values here (their use: unit c14_transport1d.optimalSink); std::upper_bound / lower_bound return arbitrary indices in range (their values do not matter for the queue invariant)",
               "pushNewSourceEvents: that the previous source reaches the last occupied sink (D[lastOccupiedSink] - S[i] <= lastPosition) and that D is non-decreasing are preconditions established by push() / setupData(), which are not under contract; minimum cost of the sweep as a whole is NOT decided (C13/C14 design notes)"]
@*/
#include "lower.h"
int verif_exc;
#define NMAX 4096
#define VMAX (1LL << 50)
typedef struct { long long *S; int S_size; long long *D; int D_size; int v_size; int u_size; int lastOccupiedSink; long long lastPosition; } Solver;
long long nondet_ll(void); int nondet_int(void);
int ns, nk;
/* abstract event queue */
int g_nev; long long g_maxev;
#define QINV(this) (0 <= g_nev && g_nev <= 1000000 && (g_nev == 0 ? g_maxev == 0 : g_maxev > 0) && g_maxev <= (this)->lastPosition && (this)->lastPosition >= 0 && (this)->lastPosition <= VMAX)
#define EV_EMPTY() (g_nev == 0)
#define EV_TOP_FIRST() (g_maxev)
#define EV_TOP_SECOND() (nondet_ll())
#define EV_POP() do { __CPROVER_assert(g_nev > 0, "spec: pop of a non-empty queue"); g_nev--; if (g_nev == 0) g_maxev = 0; else { long long verif_nm = nondet_ll(); __CPROVER_assume(0 < verif_nm && verif_nm <= g_maxev); g_maxev = verif_nm; } } while (0)
#define EV_EMPLACE(pos, d) do { __CPROVER_assert((pos) > 0 && (pos) <= this->lastPosition, "spec C14: every breakpoint stored in the event queue lies in (0, lastPosition]"); if ((pos) > g_maxev) g_maxev = (pos); if (g_nev < 1000000) g_nev++; } while (0)
#define SOLVER_SHAPE (__CPROVER_is_fresh(this, sizeof(*this)) && 1 <= ns && ns <= NMAX && 1 <= nk && nk <= NMAX && this->S_size == ns + 1 && this->D_size == nk + 1 && this->v_size == nk && this->u_size == ns \
  && __CPROVER_is_fresh(this->S, (ns + 1) * sizeof(long long)) && __CPROVER_is_fresh(this->D, (nk + 1) * sizeof(long long)) && 0 <= this->lastOccupiedSink && this->lastOccupiedSink < nk)
static inline long long verif_some_cost(void) { long long x = nondet_ll(); __CPROVER_assume(-VMAX <= x && x <= VMAX); return x; }
#define cost(i, j) (verif_some_cost())
#define delta(i, j) (verif_some_cost())
#define nbSinks() (this->v_size)

#ifdef H_NEWSINK
void Solver_pushNewSinkEvents(Solver *this, int i, int j)
__CPROVER_requires(SOLVER_SHAPE && QINV(this) && 0 <= i && i < ns && 0 <= j && j < nk)
__CPROVER_ensures(QINV(this) && this->lastOccupiedSink == std_max(__CPROVER_old(this->lastOccupiedSink), j) && this->lastPosition == __CPROVER_old(this->lastPosition))
__CPROVER_assigns(this->lastOccupiedSink, g_nev, g_maxev)
/*@extract
file = "src/place_global/transportation_1d.cpp"
head = 'void Transportation1dSolver::pushNewSinkEvents\(int i, int j\)'
rewrites = [['events\.empty\(\)', 'EV_EMPTY()', '*'], ['events\.top\(\)\.first', 'EV_TOP_FIRST()', '*'], ['events\.top\(\)\.second', 'EV_TOP_SECOND()', '*'], ['events\.pop\(\);', 'EV_POP();', '*'], ['events\.emplace\(', 'EV_EMPLACE(', '*'],
            ['(?<![\w.>])(lastOccupiedSink|lastPosition|D|S)\b(?!\s*\()', 'this->\1', '1+']]
[[loops]]
ordinal = 1
optional = true
contract = """
__CPROVER_assigns(l, g_nev, g_maxev)
__CPROVER_loop_invariant(this->lastOccupiedSink <= l && l <= j && QINV(this))
__CPROVER_decreases(j - l)
"""
[[ghosts]]
at = 'body_start:1'
optional = true
text = """GHOST(const long long g_d = this->D[l + 1]; const long long g_s = this->S[i];) __CPROVER_assume(0 <= g_d && g_d <= VMAX && 0 <= g_s && g_s <= VMAX); /* INSTANTIATE MAG */"""
@*/
void harness(void) { Solver *s; int i, j; Solver_pushNewSinkEvents(s, i, j); REACH("end"); }
#endif

#ifdef H_LASTSINK
long long Solver_getSlope(Solver *this, bool pop)
__CPROVER_requires(QINV(this))
__CPROVER_ensures(QINV(this) && this->lastPosition == __CPROVER_old(this->lastPosition))
__CPROVER_assigns(g_nev, g_maxev);
#define getSlope(p) Solver_getSlope(this, p)
void Solver_pushToLastSink(Solver *this, int i)
__CPROVER_requires(SOLVER_SHAPE && QINV(this) && 0 <= i && i < ns)
__CPROVER_requires(0 <= this->D[this->lastOccupiedSink + 1] && this->D[this->lastOccupiedSink + 1] <= VMAX && 0 <= this->S[i + 1] && this->S[i + 1] <= VMAX)
__CPROVER_ensures(QINV(this))
__CPROVER_assigns(this->lastPosition, g_nev, g_maxev)
/*@extract
file = "src/place_global/transportation_1d.cpp"
head = 'void Transportation1dSolver::pushToLastSink\(int i\)'
rewrites = [['events\.empty\(\)', 'EV_EMPTY()', '*'], ['events\.top\(\)\.first', 'EV_TOP_FIRST()', '*'], ['events\.top\(\)\.second', 'EV_TOP_SECOND()', '*'], ['events\.pop\(\);', 'EV_POP();', '*'], ['events\.emplace\(', 'EV_EMPLACE(', '*'],
            ['(?<![\w.>])(lastOccupiedSink|lastPosition|D|S)\b(?!\s*\()', 'this->\1', '1+']]
@*/
void harness(void) { Solver *s; int i; Solver_pushToLastSink(s, i); REACH("end"); }
#endif

#ifdef H_SLOPE
long long Solver_getSlope(Solver *this, bool pop)
__CPROVER_requires(__CPROVER_is_fresh(this, sizeof(*this)) && QINV(this))
__CPROVER_ensures(QINV(this) && this->lastPosition == __CPROVER_old(this->lastPosition))
__CPROVER_assigns(g_nev, g_maxev)
/*@extract
file = "src/place_global/transportation_1d.cpp"
head = 'long long Transportation1dSolver::getSlope\(bool pop\)'
rewrites = [['events\.empty\(\)', 'EV_EMPTY()', '*'], ['events\.top\(\)\.first', 'EV_TOP_FIRST()', '*'], ['events\.top\(\)\.second', 'EV_TOP_SECOND()', '*'], ['events\.pop\(\);', 'EV_POP();', '*'], ['events\.emplace\(', 'EV_EMPLACE(', '*'],
            ['slope \+= EV_TOP_SECOND\(\);', 'slope = nondet_ll(); /* sum of arbitrary slopes */', '*'],
            ['(?<![\w.>])(lastOccupiedSink|lastPosition|D|S)\b(?!\s*\()', 'this->\1', '1+']]
[[loops]]
ordinal = 1
optional = true
contract = """
__CPROVER_assigns(slope, g_nev, g_maxev)
__CPROVER_loop_invariant(QINV(this) && (g_nev < g_nev0 ==> this->lastPosition > 0))
__CPROVER_decreases(g_nev)
"""
[[ghosts]]
at = 'before:1'
optional = true
text = """GHOST(const int g_nev0 = g_nev;)"""
@*/
void harness(void) { Solver *s; bool b; Solver_getSlope(s, b); REACH("end"); }
#endif

#ifdef H_NEWSRC
int g_b, g_e;
#define UPPER_BOUND_V(x) (g_b)
#define LOWER_BOUND_V(x) (g_e)
void Solver_pushNewSourceEvents(Solver *this, int i)
__CPROVER_requires(SOLVER_SHAPE && QINV(this) && 0 <= i && i < ns && 0 <= g_b && g_b <= nk && 0 <= g_e && g_e <= nk)
/* established by push(i - 1) and setupData (not under contract): the previous source reaches the last occupied sink */
__CPROVER_requires(0 <= this->S[i] && this->S[i] <= VMAX && 0 <= this->D[this->lastOccupiedSink] && this->D[this->lastOccupiedSink] <= VMAX && this->D[this->lastOccupiedSink] - this->S[i] <= this->lastPosition)
__CPROVER_ensures(QINV(this) && this->lastPosition == __CPROVER_old(this->lastPosition))
__CPROVER_assigns(g_nev, g_maxev)
/*@extract
file = "src/place_global/transportation_1d.cpp"
head = 'void Transportation1dSolver::pushNewSourceEvents\(int i\)'
rewrites = [['events\.empty\(\)', 'EV_EMPTY()', '*'], ['events\.top\(\)\.first', 'EV_TOP_FIRST()', '*'], ['events\.top\(\)\.second', 'EV_TOP_SECOND()', '*'], ['events\.pop\(\);', 'EV_POP();', '*'], ['events\.emplace\(', 'EV_EMPLACE(', '*'],
            ['std::upper_bound\(v\.begin\(\), v\.end\(\), ([^;]*?)\) - v\.begin\(\)', 'UPPER_BOUND_V(\1)', '1'], ['std::lower_bound\(v\.begin\(\), v\.end\(\), ([^;]*?)\) - v\.begin\(\)', 'LOWER_BOUND_V(\1)', '1'],
            ['\bu\[i( - 1)?\]', '0', '*'],
            ['(?<![\w.>])(lastOccupiedSink|lastPosition|D|S)\b(?!\s*\()', 'this->\1', '1+']]
[[loops]]
ordinal = 1
optional = true
contract = """
__CPROVER_assigns(j, g_nev, g_maxev)
__CPROVER_loop_invariant(0 <= b && b <= j && (j <= e || j == b) && e <= this->lastOccupiedSink && QINV(this))
__CPROVER_decreases(e - j)
"""
[[ghosts]]
at = 'body_start:1'
optional = true
text = """GHOST(const long long g_d = this->D[j + 1]; const long long g_dl = this->D[this->lastOccupiedSink];) __CPROVER_assume(0 <= g_d && g_d <= g_dl); /* INSTANTIATE: D is non-decreasing (prefix sums of non-negative demands), at j + 1 <= lastOccupiedSink */"""
@*/
void harness(void) { Solver *s; int i; Solver_pushNewSourceEvents(s, i); REACH("end"); }
#endif
