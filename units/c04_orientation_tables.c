/*@unit
properties = ["C04", "C09"]
mode = "dfcc"
enforce = "cellOrientationInRow"
loop_contracts = false
timeout = 120
function = "cellOrientationInRow, oppositeRowOrientation, isTurn (parameters.cpp)"
variants = [
  {name = "inrow", min_obligations = 2},
  {name = "opposite", defines = ["H_OPP"], enforce = "oppositeRowOrientation"},
  {name = "isturn", defines = ["H_TURN"], enforce = "isTurn"},
]
[replay]
template = "replay/c04_tables.cpp"
inputs = ["p", "o"]
sources = ["parameters.cpp"]
@*/
#include "lower.h"
int verif_exc;
/*@enums src/coloquinte.hpp @*/
#include "spec/orient.h"

CellOrientation oppositeRowOrientation(CellOrientation o)
__CPROVER_ensures(__CPROVER_return_value == spec_opposite(o))
__CPROVER_assigns()
/*@extract
file = "src/parameters.cpp"
head = 'CellOrientation oppositeRowOrientation\(CellOrientation o\)'
@*/

bool isTurn(CellOrientation orient)
__CPROVER_ensures(__CPROVER_return_value == spec_is_turn(orient))
__CPROVER_assigns()
/*@extract
file = "src/parameters.cpp"
head = 'bool isTurn\(CellOrientation orient\)'
@*/

#undef VERIF_DUMMY
#define VERIF_DUMMY CellOrientation_INVALID
CellOrientation cellOrientationInRow(CellRowPolarity cellPolarity,
                                     CellOrientation rowOrientation)
/* full domain of row orientations (also out-of-range ints); the five declared polarities */
__CPROVER_requires(VALID_POLARITY(cellPolarity))
__CPROVER_ensures(__CPROVER_return_value == spec_orientation_in_row(cellPolarity, rowOrientation))
__CPROVER_assigns()
/*@extract
file = "src/parameters.cpp"
head = 'CellOrientation cellOrientationInRow\(CellRowPolarity cellPolarity,\s*CellOrientation rowOrientation\)'
@*/

#if defined(H_OPP)
#undef cellOrientationInRow
void harness(void) { CellOrientation o; oppositeRowOrientation(o); REACH("end"); }
#elif defined(H_TURN)
void harness(void) { CellOrientation o; isTurn(o); REACH("end"); }
#else
void harness(void) { CellRowPolarity p; CellOrientation o; cellOrientationInRow(p, o); REACH("end"); }
#endif
