/*@unit
properties = ["C11"]
mode = "dfcc"
enforce = "key_lemma"
loop_contracts = false
timeout = 900
solver = "kissat"
function = "LegalizerBase::computeCellOrder (the float ordering key, sliced from the loop body) (legalizer.cpp)"
variants = [
  {name = "kf_ordering_width", defines = ["REGION_ONLY", "SMALLMAG"], expect_fail = ["spec C11"]},
]
assumptions = ["NOT DECIDED: that the float key keeps the order for orderingWidth in [0,1]: the strict float inequality did not finish on any installed back end (kissat 900 s at magnitudes < 2^10, 600 s at < 2^6; cvc5 400 s) and is therefore not part of the claim; only its refutation outside [0,1] (the known finding) is run",
               "A(std::stable_sort is a stable sort by the key); paper induction over the legalization order: cells of a row are inserted left to right (this lemma), each conflict-free insertion costs 0 and lands on its target (unit c12_row_legalizer, variant noconflict), the own row is the unique zero-cost row",
               "AbacusLegalizer::placeCell (row choice by minimal cost; lambda) is not under contract"]
[replay]
template = "replay/c01_legalize_history.cpp"
search = true
inputs = []
@*/
#include "lower.h"
int verif_exc;
#ifdef SMALLMAG
#define KLIM (1 << 6)
#else
#define KLIM (1 << 20)
#endif
/* arrays of the two cells a = 0 (left) and b = 1 (right) */
int cellTargetX_[2], cellWidth_[2], cellTargetY_[2], cellHeight_[2];
float key_of(int i, float weightX, float weightWidth, float weightY, float weightHeight)
/*@extract
file = "src/place_detailed/legalizer.cpp"
head = 'std::vector<int> LegalizerBase::computeCellOrder\(float weightX,'
slice_from = 'float val = weightX \* cellTargetX_\[i\]'
slice_to = 'sortedCells\.emplace_back\(val, i\);'
[[ghosts]]
at = 'end'
text = '''return val;'''
@*/
void key_lemma(float orderingWidth, float orderingY, float orderingHeight)
__CPROVER_requires(-KLIM < cellTargetX_[0] && cellTargetX_[0] < KLIM && -KLIM < cellTargetX_[1] && cellTargetX_[1] < KLIM && -KLIM < cellTargetY_[0] && cellTargetY_[0] < KLIM)
__CPROVER_requires(1 <= cellWidth_[0] && cellWidth_[0] < KLIM && 1 <= cellWidth_[1] && cellWidth_[1] < KLIM && 1 <= cellHeight_[0] && cellHeight_[0] < KLIM)
/* a legal single-row placement: a left of b without overlap, same row (same y, same height) */
__CPROVER_requires(cellTargetX_[0] + cellWidth_[0] <= cellTargetX_[1] && cellTargetY_[1] == cellTargetY_[0] && cellHeight_[1] == cellHeight_[0])
/* the ordering parameters that LegalizationParameters::check accepts: orderingWidth in [-1,2], orderingY in [-0.2,0.2]; orderingHeight is unchecked and taken moderate */
__CPROVER_requires(orderingY >= -0.2f && orderingY <= 0.2f && orderingHeight >= -4.0f && orderingHeight <= 4.0f)
#if defined(REGION_EXCLUDED)
__CPROVER_requires(orderingWidth >= 0.0f && orderingWidth <= 1.0f)
#else
__CPROVER_requires(orderingWidth >= -1.0f && orderingWidth <= 2.0f && (orderingWidth < 0.0f || orderingWidth > 1.0f))
#endif
__CPROVER_assigns()
{
  /* Legalizer::run calls computeCellOrder(1.0, orderingWidth, orderingY, orderingHeight) */
  float ka = key_of(0, 1.0, orderingWidth, orderingY, orderingHeight), kb = key_of(1, 1.0, orderingWidth, orderingY, orderingHeight);
  __CPROVER_assert(ka < kb, "spec C11: the ordering key keeps the left-to-right order of non-overlapping cells of a row");
}
void harness(void) { float a, b, c; key_lemma(a, b, c); REACH("end"); }
