/*@unit
properties = ["C02"]
mode = "dfcc"
enforce = "DetailedPlacement_check_structure"
timeout = 600
solver = "kissat"
function = "DetailedPlacement::check (structural loops over rows and cells; the orientation loop that walks rowCells() is cut at a must-fire anchor and proved in unit c04_dp_check_orient)"
assumptions = ["checker soundness: check() is run from an ARBITRARY state, so stored indices must be well-typed before they are dereferenced; TYPEOK (stored indices in [-1,n), magnitudes) is a named invariant instantiated at the loop index and its neighbours; it is preserved by every mutator (units c02_dp_place / c02_dp_insert) and established by the constructor's assignments",
               "the third loop of check() (orientation vs polarity, walks the linked list through rowCells) is under contract in unit c04_dp_check_orient"]
[replay]
template = "replay/c02_detailed_history.cpp"
search = true
inputs = []
@*/
#include "lower.h"
int verif_exc;
/*@include units/inc/detailed_placement.inc @*/
#define NMAX 1000
#define RMAX 100
int ghost_g, ghost_r;
#define DP_FRESH(p) (__CPROVER_is_fresh(p, sizeof(*p)) && 1 <= p->cellWidth__size && p->cellWidth__size <= NMAX && 1 <= p->rows__size && p->rows__size <= RMAX \
   && __CPROVER_is_fresh(p->rows_, sizeof(Row) * p->rows__size) && __CPROVER_is_fresh(p->rowFirstCell_, sizeof(int) * p->rows__size) && __CPROVER_is_fresh(p->rowLastCell_, sizeof(int) * p->rows__size) \
   && __CPROVER_is_fresh(p->cellWidth_, sizeof(int) * p->cellWidth__size) && __CPROVER_is_fresh(p->cellPred_, sizeof(int) * p->cellWidth__size) && __CPROVER_is_fresh(p->cellNext_, sizeof(int) * p->cellWidth__size) \
   && __CPROVER_is_fresh(p->cellRow_, sizeof(int) * p->cellWidth__size) && __CPROVER_is_fresh(p->cellX_, sizeof(int) * p->cellWidth__size) && __CPROVER_is_fresh(p->cellY_, sizeof(int) * p->cellWidth__size))
#define NC (this->cellWidth__size)
#define NR (this->rows__size)
#define TYPEOK(k) (this->cellPred_[k] >= -1 && this->cellPred_[k] < NC && this->cellNext_[k] >= -1 && this->cellNext_[k] < NC && this->cellX_[k] >= -DP_LIM && this->cellX_[k] <= DP_LIM && this->cellWidth_[k] >= -1 && this->cellWidth_[k] <= DP_LIM)
#define ROWTYPEOK(r) (this->rowFirstCell_[r] >= -1 && this->rowFirstCell_[r] < NC && this->rowLastCell_[r] >= -1 && this->rowLastCell_[r] < NC)
#define INSTANTIATE(e) __CPROVER_assume(e)
/* what a normal return of check() establishes: the legality facts of the property (order, no overlap, inside the row,
 * consistent row ends); list symmetry, width > 0 and y are carried by the mutator contracts instead */
static bool RWF_chk(const DetailedPlacement *p, int r) {
  int fc = p->rowFirstCell_[r], lc = p->rowLastCell_[r];
  if ((fc == -1) != (lc == -1)) return false;
  if (fc == -1) return true;
  return dp_in_cells(p, fc) && dp_in_cells(p, lc) && p->cellRow_[fc] == r && p->cellPred_[fc] == -1 && p->cellRow_[lc] == r && p->cellNext_[lc] == -1;
}
static bool LWF_chk(const DetailedPlacement *p, int k) {
  int row = p->cellRow_[k], pc = p->cellPred_[k], nc = p->cellNext_[k];
  if (row < -1 || row >= p->rows__size) return false;
  if (row == -1) return pc == -1 && nc == -1;
  if (pc != -1) { if (!dp_in_cells(p, pc) || p->cellRow_[pc] != row || p->cellX_[pc] + p->cellWidth_[pc] > p->cellX_[k]) return false; }
  else { if (p->rowFirstCell_[row] != k || p->cellX_[k] < p->rows_[row].minX) return false; }
  if (nc != -1) { if (!dp_in_cells(p, nc) || p->cellRow_[nc] != row || p->cellX_[k] + p->cellWidth_[k] > p->cellX_[nc]) return false; }
  else { if (p->rowLastCell_[row] != k || p->cellX_[k] + p->cellWidth_[k] > p->rows_[row].maxX) return false; }
  return true;
}
#define RWF_S ( ((t_fc == -1) == (t_lc == -1)) && (t_fc == -1 || (t_fc_in && t_lc_in && t_fc_row == r_ && t_fc_pred == -1 && t_lc_row == r_ && t_lc_next == -1)) )
#define LWF_S ( s_row >= -1 && s_row < NR && (s_row == -1 ? (s_pc == -1 && s_nc == -1) : ( \
   (s_pc != -1 ? (s_pc_in && s_pc_row == s_row && s_pc_end <= s_x) : (s_first == g_ && s_x >= s_minX)) && \
   (s_nc != -1 ? (s_nc_in && s_nc_row == s_row && s_x + s_w <= s_nc_x) : (s_last == g_ && s_x + s_w <= s_maxX)) )) )

void DetailedPlacement_check_structure(const DetailedPlacement *this)
__CPROVER_requires(DP_FRESH(this) && verif_exc == 0)
__CPROVER_requires(0 <= ghost_g && ghost_g < this->cellWidth__size && 0 <= ghost_r && ghost_r < this->rows__size)
/* checker soundness: if check() returns normally, every cell and row satisfies the legality facts it tests */
__CPROVER_ensures(verif_exc == 0 ==> (LWF_chk(this, ghost_g) && RWF_chk(this, ghost_r)))
__CPROVER_assigns(verif_exc)
/*@extract
file = "src/place_detailed/detailed_placement.cpp"
head = 'void DetailedPlacement::check\(\) const'
slice_from = 'for \(int i = 0; i < nbRows\(\); \+\+i\) \{\s*int fc = rowFirstCell\(i\);'
slice_to = 'for \(int i = 0; i < nbRows\(\); \+\+i\) \{\s*for \(int c : rowCells\(i\)\)'
this_members = {file = "src/place_detailed/detailed_placement.hpp", class = "DetailedPlacement"}
nloops = 2
[[ghosts]]
at = 'before:1'
text = '''
  const int g_ = ghost_g, r_ = ghost_r;
  INSTANTIATE(TYPEOK(g_)); INSTANTIATE(ROWTYPEOK(r_)); const int gp_ = this->cellPred_[g_], gn_ = this->cellNext_[g_]; if (gp_ != -1) INSTANTIATE(TYPEOK(gp_)); if (gn_ != -1) INSTANTIATE(TYPEOK(gn_));
  const int s_row = this->cellRow_[g_], s_pc = this->cellPred_[g_], s_nc = this->cellNext_[g_], s_x = this->cellX_[g_], s_w = this->cellWidth_[g_];
  const bool s_pc_in = s_pc >= 0 && s_pc < NC, s_nc_in = s_nc >= 0 && s_nc < NC, s_row_in = s_row >= 0 && s_row < NR;
  const int s_pc_row = s_pc_in ? this->cellRow_[s_pc] : -2, s_pc_end = s_pc_in ? this->cellX_[s_pc] + this->cellWidth_[s_pc] : 0;
  const int s_nc_row = s_nc_in ? this->cellRow_[s_nc] : -2, s_nc_x = s_nc_in ? this->cellX_[s_nc] : 0;
  const int s_first = s_row_in ? this->rowFirstCell_[s_row] : -2, s_last = s_row_in ? this->rowLastCell_[s_row] : -2;
  const int s_minX = s_row_in ? this->rows_[s_row].minX : 0, s_maxX = s_row_in ? this->rows_[s_row].maxX : 0;
  const int t_fc = this->rowFirstCell_[r_], t_lc = this->rowLastCell_[r_];
  const bool t_fc_in = t_fc >= 0 && t_fc < NC, t_lc_in = t_lc >= 0 && t_lc < NC;
  const int t_fc_row = t_fc_in ? this->cellRow_[t_fc] : -2, t_fc_pred = t_fc_in ? this->cellPred_[t_fc] : -2, t_lc_row = t_lc_in ? this->cellRow_[t_lc] : -2, t_lc_next = t_lc_in ? this->cellNext_[t_lc] : -2;
'''
[[ghosts]]
at = 'body_start:1'
text = '''INSTANTIATE(ROWTYPEOK(i));'''
[[ghosts]]
at = 'body_start:2'
text = '''INSTANTIATE(TYPEOK(i));'''
[[ghosts]]
after = 'int row = cellRow\(i\);'
text = '''if (pc != -1) INSTANTIATE(TYPEOK(pc)); if (nc != -1) INSTANTIATE(TYPEOK(nc));'''
[[loops]]
ordinal = 1
contract = '''
__CPROVER_assigns(i, verif_exc)
__CPROVER_loop_invariant(0 <= i && i <= NR && verif_exc == 0)
__CPROVER_loop_invariant(r_ < i ==> RWF_S)
__CPROVER_decreases(NR - i)
'''
[[loops]]
ordinal = 2
contract = '''
__CPROVER_assigns(i, verif_exc)
__CPROVER_loop_invariant(0 <= i && i <= NC && verif_exc == 0)
__CPROVER_loop_invariant(RWF_S)
__CPROVER_loop_invariant(g_ < i ==> LWF_S)
__CPROVER_decreases(NC - i)
'''
@*/

void harness(void) { DetailedPlacement *t; DetailedPlacement_check_structure(t); REACH("end"); }
