/*@unit
properties = ["C10", "C19", "C03", "C02"]
mode = "dfcc"
enforce = "DetailedPlacer_legalize"
loop_contracts = false
timeout = 120
function = "DetailedPlacer::legalize, DetailedPlacer::place (place_detailed.cpp), GlobalPlacer::place (place_global.cpp): order of parameter check, run, export and callback"
variants = [
  {name = "legalize", enforce = "DetailedPlacer_legalize", defines = ["H_LEGALIZE"], replace = ["ColoquinteParameters_check", "PartialParameters_check", "Legalizer_fromIspdCircuit", "Legalizer_run", "Legalizer_meanDistance", "Legalizer_exportPlacement", "Callback_call"]},
  {name = "dplace", enforce = "DetailedPlacer_place", defines = ["H_DPLACE"], replace = ["ColoquinteParameters_check", "DetailedPlacer_legalize", "Circuit_legalize", "DetailedPlacer_ctor", "DetailedPlacer_check", "DetailedPlacer_run", "DetailedPlacer_exportPlacement"]},
  {name = "gplace", enforce = "GlobalPlacer_place", defines = ["H_GPLACE"], replace = ["ColoquinteParameters_check", "GlobalPlacer_ctor", "GlobalPlacer_run", "GlobalPlacer_exportPlacement"]},
]
assumptions = ["callees are replaced by protocol contracts over ghost state (checked / built / ran / exported); only the export callee has the circuit's positions in its frame (frames of the export functions: units c03_*)",
               "statements that only print or read the clock are dropped (listed per extraction)"]
[replay]
template = "replay/c10_busy.cpp"
search = true
inputs = []
@*/
#include "lower.h"
int verif_exc;
/*@include units/inc/circuit.inc @*/
/*@members_off Circuit @*/
#undef x
#undef y
typedef struct ColoquinteParameters ColoquinteParameters;
typedef struct { int dummy; } Legalizer;
typedef struct { int dummy; bool callback_has_value; } DetailedPlacer;
typedef struct { int dummy; bool callback_has_value; } GlobalPlacer;

/* ghost protocol state */
bool g_checked, g_built, g_ran, g_exported, g_legalized, g_final_check;
int g_pos_version;      /* bumped by every write-back into the circuit */
int g_pos_version0;

void ColoquinteParameters_check(const ColoquinteParameters *params)
__CPROVER_ensures(!verif_exc ==> g_checked)
__CPROVER_ensures(g_pos_version == __CPROVER_old(g_pos_version))
__CPROVER_assigns(verif_exc, g_checked);

#define DROP_IO [ ['std::cout\s*<<[^;]*;', '1+'], ['auto (startTime|endTime) = std::chrono::steady_clock::now\(\);', '2'], ['std::chrono::duration<float> duration = endTime - startTime;', '1'] ]

#ifdef H_LEGALIZE
/* a check of only a part of the parameter set does not establish 'the whole set was accepted' */
void PartialParameters_check(const ColoquinteParameters *params)
__CPROVER_requires(1) __CPROVER_ensures(g_pos_version == __CPROVER_old(g_pos_version)) __CPROVER_assigns(verif_exc);
Legalizer Legalizer_fromIspdCircuit(const Circuit *circuit)
__CPROVER_requires(g_checked)   /* C19: nothing is built from a circuit before the parameters were accepted */
__CPROVER_ensures(!verif_exc ==> g_built)
__CPROVER_assigns(verif_exc, g_built);
void Legalizer_run(Legalizer *leg, const ColoquinteParameters *params)
__CPROVER_requires(g_built)
__CPROVER_ensures(!verif_exc ==> g_ran)   /* run() either throws or has placed every cell (unit c01_legalizer_run) */
__CPROVER_assigns(verif_exc, g_ran);
float Legalizer_meanDistance(const Legalizer *leg)
__CPROVER_requires(1)
__CPROVER_assigns();
void Legalizer_exportPlacement(Legalizer *leg, Circuit *circuit)
__CPROVER_requires(g_ran)       /* C10/C01: results are written back only after run() succeeded */
__CPROVER_ensures(g_exported && g_pos_version == __CPROVER_old(g_pos_version) + 1)
__CPROVER_assigns(verif_exc, g_exported, g_pos_version);
void Callback_call(PlacementStep step)
__CPROVER_requires(g_exported)  /* C02: the callback sees the exported state */
__CPROVER_assigns(verif_exc);

void DetailedPlacer_legalize(Circuit *circuit_p, const ColoquinteParameters *params, bool callback_has_value)
__CPROVER_requires(__CPROVER_is_fresh(circuit_p, sizeof(Circuit)) && verif_exc == 0 && !g_checked && !g_built && !g_ran && !g_exported && g_pos_version == 0)
__CPROVER_ensures(!verif_exc ==> (g_exported && g_pos_version == 1))
/* C10: a legalization that failed (before its write-back) has left the placement exactly as it was */
__CPROVER_ensures((verif_exc && !g_ran) ==> g_pos_version == 0)
__CPROVER_assigns(verif_exc, g_checked, g_built, g_ran, g_exported, g_pos_version, circuit_p->hasCellSizeUpdate_, circuit_p->hasNetUpdate_)
#define circuit (*circuit_p)
/*@extract
file = "src/place_detailed/place_detailed.cpp"
head = 'void DetailedPlacer::legalize\('
drop = [ ['std::cout\s*<<[^;]*;', '1+'], ['auto (?:startTime|endTime) = std::chrono::steady_clock::now\(\);', '2'], ['std::chrono::duration<float> duration = endTime - startTime;', '1'] ]
rewrites = [['params\.check\(\);', 'ColoquinteParameters_check(params); VERIF_PROPAGATE;', '*'],
  ['params\.(\w+)\.check\(\);', 'PartialParameters_check(params); VERIF_PROPAGATE;', '*'],
  ['Legalizer leg = Legalizer::fromIspdCircuit\(circuit\);', 'Legalizer leg = Legalizer_fromIspdCircuit(circuit_p); VERIF_PROPAGATE;', '1+'],
  ['leg\.run\(params\);', 'Legalizer_run(&leg, params); VERIF_PROPAGATE;', '1+'],
  ['leg\.meanDistance\(params\.legalization\.costModel\)', 'Legalizer_meanDistance(&leg)', '1'],
  ['leg\.exportPlacement\(circuit\);', 'Legalizer_exportPlacement(&leg, circuit_p); VERIF_PROPAGATE;', '1+'],
  ['callback\.has_value\(\)', 'callback_has_value', '1'],
  ['callback\.value\(\)\(PlacementStep::Detailed\);', 'Callback_call(PlacementStep_Detailed); VERIF_PROPAGATE;', '1+']]
@*/
#undef circuit
#endif

#ifdef H_DPLACE
void DetailedPlacer_legalize(Circuit *circuit_p, const ColoquinteParameters *params, bool callback_has_value)
__CPROVER_requires(circuit_p->isInUse_)
__CPROVER_ensures(!verif_exc ==> (g_legalized && g_checked))
__CPROVER_assigns(verif_exc, g_checked, g_legalized, g_pos_version);
/* the public entry point: it marks the circuit busy for its own duration and releases it at the end (unit c10_entry) */
void Circuit_legalize(Circuit *circuit_p, const ColoquinteParameters *params, bool callback_has_value)
__CPROVER_requires(1)
__CPROVER_ensures(!circuit_p->isInUse_ && (!verif_exc ==> (g_legalized && g_checked)))
__CPROVER_assigns(verif_exc, g_checked, g_legalized, g_pos_version, circuit_p->isInUse_);
DetailedPlacer DetailedPlacer_ctor(Circuit *circuit_p, const ColoquinteParameters *params)
__CPROVER_requires(circuit_p->isInUse_)   /* C10: the circuit stays busy for the whole placement call (callbacks run inside run()) */
__CPROVER_requires(g_legalized && g_checked)  /* C02: detailed placement starts from the legalized placement, with accepted parameters */
__CPROVER_ensures(!verif_exc ==> g_built)
__CPROVER_assigns(verif_exc, g_built);
void DetailedPlacer_check(const DetailedPlacer *pl)
__CPROVER_requires(g_built)
__CPROVER_assigns(verif_exc);
void DetailedPlacer_run(DetailedPlacer *pl)
__CPROVER_requires(g_built)
__CPROVER_ensures(!verif_exc ==> g_ran)
__CPROVER_assigns(verif_exc, g_ran, g_pos_version);
void DetailedPlacer_exportPlacement(DetailedPlacer *pl, Circuit *circuit_p)
__CPROVER_requires(g_ran && g_final_check)   /* C02: the state written back on return passed check() after the last pass */
__CPROVER_ensures(g_exported)
__CPROVER_assigns(g_exported, g_pos_version);
void DetailedPlacer_place(Circuit *circuit_p, const ColoquinteParameters *params, bool callback_has_value)
__CPROVER_requires(__CPROVER_is_fresh(circuit_p, sizeof(Circuit)) && verif_exc == 0 && !g_checked && !g_built && !g_ran && !g_exported && !g_legalized && !g_final_check)
__CPROVER_requires(circuit_p->isInUse_)   /* established by Circuit::placeDetailed (unit c10_entry: the placer is entered with the flag set) */
__CPROVER_ensures(!verif_exc ==> g_exported)
__CPROVER_assigns(verif_exc, g_checked, g_built, g_ran, g_exported, g_legalized, g_pos_version, g_final_check, circuit_p->isInUse_)
#define circuit (*circuit_p)
/*@extract
file = "src/place_detailed/place_detailed.cpp"
head = 'void DetailedPlacer::place\(Circuit &circuit'
drop = [ ['std::cout\s*<<[^;]*;', '1+'], ['auto (?:startTime|endTime) = std::chrono::steady_clock::now\(\);', '2'], ['std::chrono::duration<float> duration = endTime - startTime;', '1'] ]
rewrites = [['(?<![\w.])legalize\(circuit, params, callback\);', 'DetailedPlacer_legalize(circuit_p, params, callback_has_value); VERIF_PROPAGATE;', '*'],
  ['\bcircuit\.legalize\(params, callback\);', 'Circuit_legalize(circuit_p, params, callback_has_value); VERIF_PROPAGATE;', '*'],
  ['(DetailedPlacer|Circuit)_legalize\(circuit_p, params, callback_has_value\);', '\g<0>', '1+'],
  ['params\.check\(\);', 'ColoquinteParameters_check(params); VERIF_PROPAGATE;', '1+'],
  ['DetailedPlacer pl\(circuit, params\);', 'DetailedPlacer pl = DetailedPlacer_ctor(circuit_p, params); VERIF_PROPAGATE;', '1+'],
  ['pl\.callback_ = callback;', 'pl.callback_has_value = callback_has_value;', '1'],
  ['pl\.check\(\);', 'DetailedPlacer_check(&pl); VERIF_PROPAGATE; GHOST(g_final_check = g_ran;)', '2'],
  ['pl\.run\(\);', 'DetailedPlacer_run(&pl); VERIF_PROPAGATE;', '1+'],
  ['pl\.exportPlacement\(circuit\);', 'DetailedPlacer_exportPlacement(&pl, circuit_p);', '1+']]
@*/
#undef circuit
#endif

#ifdef H_GPLACE
GlobalPlacer GlobalPlacer_ctor(Circuit *circuit_p, const ColoquinteParameters *params)
__CPROVER_requires(g_checked)   /* C19: rejected parameters => nothing built, nothing written */
__CPROVER_ensures(!verif_exc ==> g_built)
__CPROVER_assigns(verif_exc, g_built);
void GlobalPlacer_run(GlobalPlacer *pl)
__CPROVER_requires(g_built)
__CPROVER_ensures(!verif_exc ==> g_ran)
__CPROVER_assigns(verif_exc, g_ran, g_pos_version);
void GlobalPlacer_exportPlacement(const GlobalPlacer *pl, Circuit *circuit_p)
__CPROVER_requires(g_ran)
__CPROVER_ensures(g_exported)
__CPROVER_assigns(g_exported, g_pos_version);
void GlobalPlacer_place(Circuit *circuit_p, const ColoquinteParameters *params, bool callback_has_value)
__CPROVER_requires(__CPROVER_is_fresh(circuit_p, sizeof(Circuit)) && verif_exc == 0 && !g_checked && !g_built && !g_ran && !g_exported && g_pos_version == 0)
__CPROVER_ensures(!verif_exc ==> g_exported)
__CPROVER_ensures((verif_exc && !g_checked) ==> g_pos_version == 0)
__CPROVER_assigns(verif_exc, g_checked, g_built, g_ran, g_exported, g_pos_version)
#define circuit (*circuit_p)
/*@extract
file = "src/place_global/place_global.cpp"
head = 'void GlobalPlacer::place\(Circuit &circuit'
drop = [ ['std::cout\s*<<[^;]*;', '1+'], ['auto (?:startTime|endTime) = std::chrono::steady_clock::now\(\);', '2'], ['std::chrono::duration<float> duration = endTime - startTime;', '1'] ]
rewrites = [['params\.check\(\);', 'ColoquinteParameters_check(params); VERIF_PROPAGATE;', '1+'],
  ['GlobalPlacer pl\(circuit, params\);', 'GlobalPlacer pl = GlobalPlacer_ctor(circuit_p, params); VERIF_PROPAGATE;', '1+'],
  ['pl\.callback_ = callback;', 'pl.callback_has_value = callback_has_value;', '1'],
  ['pl\.run\(\);', 'GlobalPlacer_run(&pl); VERIF_PROPAGATE;', '1+'],
  ['pl\.exportPlacement\(circuit\);', 'GlobalPlacer_exportPlacement(&pl, circuit_p);', '1+']]
@*/
#undef circuit
#endif

void harness(void) {
  Circuit *c; const ColoquinteParameters *p; bool has;
#if defined(H_LEGALIZE)
  DetailedPlacer_legalize(c, p, has);
#elif defined(H_DPLACE)
  DetailedPlacer_place(c, p, has);
#else
  GlobalPlacer_place(c, p, has);
#endif
  REACH("end");
}
