/*@unit
properties = ["C17"]
mode = "dfcc"
enforce = "MatrixCreator_addB2B"
timeout = 600
solver = "cvc5"
split = true
function = "MatrixCreator::addB2B, addStar(net,pl,eps), addLightStar, addClique(net,pl,eps), addBipoint(net,pl,eps) (net_model.cpp): the strength handed to addPin for every pin (pair) is the NET WEIGHT times a factor that depends on geometry and epsilon only - bitwise the documented expression - and every pin gets exactly the connections of its model"
variants = [
  {name = "b2b", enforce = "MatrixCreator_addB2B", defines = ["H_B2B"]},
  {name = "star", enforce = "MatrixCreator_addStarPl", defines = ["H_STAR"]},
  {name = "lightStar", enforce = "MatrixCreator_addLightStar", defines = ["H_LIGHT"]},
  {name = "clique", enforce = "MatrixCreator_addCliquePl", defines = ["H_CLIQUE"]},
  {name = "bipoint", enforce = "MatrixCreator_addBipointPl", defines = ["H_BIPOINT"]},
]
assumptions = ["NetModel accessors: nbPins / netWeight return ghost scalars; pinCell / pinOffset / pinPosition of the pin(s) at hand return ghost scalars that are re-chosen arbitrarily (finite) in every iteration, so the spec assertions at the addPin calls hold for every pin; minPin/maxPin return ghost tuples (their bodies are not under contract here); addPin / addCell / addBipoint calls are checked and counted by ghost code at the call (addPin itself: unit c17_net_weights)",
               "the spec assertions compare floats bitwise with the documented expression (weight / (pins - 1)) / max(epsilon, distance) etc.; that this expression scales exactly with the weight for factors 2^k is the paper lemma of unit c17_net_weights",
               "std::abs on floats is lowered to (a < 0 ? -a : a), which differs from fabsf only in the sign of a zero result; every use is under max(epsilon, .) with epsilon > 0",
               "clique: nb * (nb - 1) is computed in int; the contract requires at most 46340 pins",
               "split: each contract obligation is a separate solver query on the same instrumented program (cvc5 decides each in seconds, not their disjunction)"]
@*/
#include "lower.h"
int verif_exc;
typedef struct { int nbCells_; } NetModel;
typedef struct { NetModel topo_; } MatrixCreator;
typedef struct { int i; int cell; float offset; float pos; } PinTuple;
#define PMAX 46340
/* ghost net data */
int g_np; float g_nw;
int g_i, g_j;                               /* ghost pins: used for COUNTING the connections of a pin (pair) only */
int g_cell_c, g_cell_d; float g_off_c, g_off_d, g_pos_c, g_pos_d;   /* the pin(s) at hand: loop pin i (c) and, for pairs, pin j (d) */
PinTuple g_min, g_max;
int nondet_int(void); float nondet_float(void);
#define NetModel_nbPins(t, net) (g_np)
#define NetModel_netWeight(t, net) (g_nw)
#define PIN_pinCell_i g_cell_c
#define PIN_pinOffset_i g_off_c
#define PIN_pinPosition_i g_pos_c
#define PIN_pinCell_j g_cell_d
#define PIN_pinOffset_j g_off_d
#define PIN_pinPosition_j g_pos_d
#define PIN_pinCell_0 g_cell_c
#define PIN_pinOffset_0 g_off_c
#define PIN_pinPosition_0 g_pos_c
#define PIN_pinCell_1 g_cell_d
#define PIN_pinOffset_1 g_off_d
#define PIN_pinPosition_1 g_pos_d
#define NetModel_minPin(t, net, pl) (g_min)
#define NetModel_maxPin(t, net, pl) (g_max)
/* every addPin call is checked against ADDPIN_SPEC(k, ...), k = number of earlier calls in this iteration; calls made while the loop is at the ghost pin (pair) - VERIF_AT - are counted */
int g_cnt, g_k;
#define MatrixCreator_addPin(this, c1, c2, o1, o2, w) do { __CPROVER_assert(ADDPIN_SPEC(g_k, c1, c2, o1, o2, w), "spec C17: cells, offsets and strength handed to addPin are those of the documented model (strength = net weight x geometric factor)"); if (g_k < 4) g_k++; if (VERIF_AT) { if (g_cnt < 4) g_cnt++; } } while (0)
#define REC(c1, c2, o1, o2, w, a, b, oa, ob, ww) ((c1) == (a) && (c2) == (b) && (o1) == (oa) && (o2) == (ob) && (w) == (ww))
int g_starC; int g_cells_added;
#define STARPOS (0.5f * (g_min.pos + g_max.pos))
#define MatrixCreator_addCell(this, pos) (__CPROVER_assert((pos) == STARPOS, "spec: the star cell starts at the middle of the net"), g_cells_added++, g_starC)
int g_bip;
#define FIN(x) ((x) >= -1.0e7f && (x) <= 1.0e7f)
#define NET_OK (g_np >= 1 && g_np <= PMAX && g_nw >= 0.0f && g_nw <= 1.0e6f && epsilon >= 1.0e-6f && epsilon <= 1.0e6f && g_cnt == 0 && g_k == 0 && g_cells_added == 0 && g_bip == 0 \
  && FIN(g_pos_c) && FIN(g_pos_d) && FIN(g_off_c) && FIN(g_off_d) && FIN(g_min.pos) && FIN(g_max.pos) && FIN(g_min.offset) && FIN(g_max.offset))
#define EXTREMES_OK (0 <= g_min.i && g_min.i < g_np && 0 <= g_max.i && g_max.i < g_np && g_min.pos <= g_max.pos)
#define PIN_C g_k, g_cell_c, g_off_c, g_pos_c

#ifdef H_B2B
#define VERIF_AT (i == g_i)
#define W_B2B (g_nw / (g_np - 1))
#define ADDPIN_SPEC(k, c1, c2, o1, o2, w) ((k) == 0 ? REC(c1, c2, o1, o2, w, g_cell_c, g_min.cell, g_off_c, g_min.offset, W_B2B / std_max(epsilon, std_abs(g_pos_c - g_min.pos))) \
                                                     : REC(c1, c2, o1, o2, w, g_cell_c, g_max.cell, g_off_c, g_max.offset, W_B2B / std_max(epsilon, std_abs(g_pos_c - g_max.pos))))
#define CNT_SPEC (g_i == g_min.i ? 0 : g_i == g_max.i ? 1 : 2)
void MatrixCreator_addB2B(MatrixCreator *this, int net, const float *pl, float epsilon)
__CPROVER_requires(__CPROVER_is_fresh(this, sizeof(MatrixCreator)) && NET_OK && EXTREMES_OK && 0 <= g_i && g_i < g_np)
/* C17: every pin but the lower bound is tied to the lower bound pin, and every pin but the two bounds also to the upper one, with strength
 * weight / (pins - 1) / max(epsilon, distance) (checked at the calls) */
__CPROVER_ensures(g_cnt == CNT_SPEC)
__CPROVER_assigns(g_cnt, PIN_C)
/*@extract
file = "src/place_global/net_model.cpp"
head = 'void MatrixCreator::addB2B\(int net, const std::vector<float> &pl,\s*float epsilon\)'
nloops = 1
rewrites = [['auto \[(\w+), (\w+), (\w+), (\w+)\] = topo_\.(minPin|maxPin)\(net, pl\);', 'const PinTuple verif_\5 = NetModel_\5(&this->topo_, net, pl); const int \1 = verif_\5.i; const int \2 = verif_\5.cell; const float \3 = verif_\5.offset; const float \4 = verif_\5.pos;', '2'],
            ['\btopo_\.(pinCell|pinOffset|pinPosition)\(net, (\w+)(?:, pl)?\)', 'PIN_\1_\2', '1+'],
            ['\btopo_\.(\w+)\(', 'NetModel_\1(&this->topo_, ', '1+'],
            ['(?<![\w.>])(addPin|addCell)\(', 'MatrixCreator_\1(this, ', '1+']]
[[loops]]
ordinal = 1
contract = """
__CPROVER_assigns(i, g_cnt, PIN_C)
__CPROVER_loop_invariant(0 <= i && i <= g_np && (g_i >= i ==> g_cnt == 0) && (g_i < i ==> g_cnt == CNT_SPEC))
__CPROVER_decreases(g_np - i)
"""
[[ghosts]]
at = 'body_start:1'
text = """GHOST(g_k = 0; g_cell_c = nondet_int(); g_off_c = nondet_float(); g_pos_c = nondet_float();) __CPROVER_assume(FIN(g_pos_c) && FIN(g_off_c)); /* the pin at hand: arbitrary finite values, so every spec assertion below holds for EVERY pin */"""
@*/
void harness(void) { MatrixCreator *mc; int net; const float *pl; float eps; MatrixCreator_addB2B(mc, net, pl, eps); REACH("end"); }
#endif

#ifdef H_STAR
#define VERIF_AT (i == g_i)
#define IS_EXT (i == g_min.i || i == g_max.i)
#define W_INNER (g_nw / std_max(epsilon, std_min(g_max.pos - g_pos_c, g_pos_c - g_min.pos)))
#define ADDPIN_SPEC(k, c1, c2, o1, o2, w) ((k) == 0 && (IS_EXT ? REC(c1, c2, o1, o2, w, g_cell_c, g_starC, g_off_c, 0.0f, g_nw / std_max(epsilon, std_abs(g_pos_c - STARPOS))) \
                                                            : REC(c1, c2, o1, o2, w, g_cell_c, g_starC, g_off_c, g_pos_c - STARPOS, W_INNER)))
#define MatrixCreator_addBipointPl(this, net, pl, eps) do { if (g_bip < 4) g_bip++; } while (0)
void MatrixCreator_addStarPl(MatrixCreator *this, int net, const float *pl, float epsilon)
__CPROVER_requires(__CPROVER_is_fresh(this, sizeof(MatrixCreator)) && NET_OK && EXTREMES_OK && 0 <= g_i && g_i < g_np)
/* C17: nets of up to two pins go to the two-pin model; otherwise one star cell is created and every pin is tied to it exactly once, with strength
 * weight x geometric factor (checked at the calls) */
__CPROVER_ensures(g_np <= 2 ? (g_bip == 1 && g_cnt == 0 && g_cells_added == 0) : (g_bip == 0 && g_cnt == 1 && g_cells_added == 1))
__CPROVER_assigns(g_cnt, g_bip, g_cells_added, PIN_C)
/*@extract
file = "src/place_global/net_model.cpp"
head = 'void MatrixCreator::addStar\(int net, const std::vector<float> &pl,\s*float epsilon\)'
nloops = 1
rewrites = [['auto \[(\w+), (\w+), (\w+), (\w+)\] = topo_\.(minPin|maxPin)\(net, pl\);', 'const PinTuple verif_\5 = NetModel_\5(&this->topo_, net, pl); const int \1 = verif_\5.i; const int \2 = verif_\5.cell; const float \3 = verif_\5.offset; const float \4 = verif_\5.pos;', '2'],
            ['\btopo_\.(pinCell|pinOffset|pinPosition)\(net, (\w+)(?:, pl)?\)', 'PIN_\1_\2', '1+'],
            ['(?<![\w.>])addBipoint\(net, pl, epsilon\)', 'MatrixCreator_addBipointPl(this, net, pl, epsilon)', '1'],
            ['\btopo_\.(\w+)\(', 'NetModel_\1(&this->topo_, ', '1+'],
            ['(?<![\w.>])(addPin|addCell)\(', 'MatrixCreator_\1(this, ', '1+']]
[[loops]]
ordinal = 1
contract = """
__CPROVER_assigns(i, g_cnt, PIN_C)
__CPROVER_loop_invariant(0 <= i && i <= g_np && g_np > 2 && g_bip == 0 && g_cells_added == 1 && (g_i >= i ==> g_cnt == 0) && (g_i < i ==> g_cnt == 1))
__CPROVER_decreases(g_np - i)
"""
[[ghosts]]
at = 'body_start:1'
text = """GHOST(g_k = 0; g_cell_c = nondet_int(); g_off_c = nondet_float(); g_pos_c = nondet_float();) __CPROVER_assume(FIN(g_pos_c) && FIN(g_off_c)); /* the pin at hand: arbitrary finite values, so every spec assertion below holds for EVERY pin */"""
@*/
void harness(void) { MatrixCreator *mc; int net; const float *pl; float eps; MatrixCreator_addStarPl(mc, net, pl, eps); REACH("end"); }
#endif

#ifdef H_LIGHT
#define VERIF_AT (i == g_i)
#define IS_EXT (i == g_min.i || i == g_max.i)
#define W_LS (g_nw / (g_np - 1))
#define W_INNER ((W_LS / std_max(epsilon, g_max.pos - g_pos_c)) + (W_LS / std_max(epsilon, g_pos_c - g_min.pos)))
#define ADDPIN_SPEC(k, c1, c2, o1, o2, w) ((k) == 0 && (IS_EXT ? REC(c1, c2, o1, o2, w, g_cell_c, g_starC, g_off_c, 0.0f, g_nw / std_max(epsilon, std_abs(g_pos_c - STARPOS))) \
                                                            : REC(c1, c2, o1, o2, w, g_cell_c, g_starC, g_off_c, g_pos_c - STARPOS, W_INNER)))
#define MatrixCreator_addBipointPl(this, net, pl, eps) do { if (g_bip < 4) g_bip++; } while (0)
void MatrixCreator_addLightStar(MatrixCreator *this, int net, const float *pl, float epsilon)
__CPROVER_requires(__CPROVER_is_fresh(this, sizeof(MatrixCreator)) && NET_OK && EXTREMES_OK && 0 <= g_i && g_i < g_np)
/* C17: nets of up to two pins go to the two-pin model; otherwise one star cell is created and every pin is tied to it exactly once, with strength
 * weight x geometric factor (checked at the calls) */
__CPROVER_ensures(g_np <= 2 ? (g_bip == 1 && g_cnt == 0 && g_cells_added == 0) : (g_bip == 0 && g_cnt == 1 && g_cells_added == 1))
__CPROVER_assigns(g_cnt, g_bip, g_cells_added, PIN_C)
/*@extract
file = "src/place_global/net_model.cpp"
head = 'void MatrixCreator::addLightStar\(int net, const std::vector<float> &pl,\s*float epsilon\)'
nloops = 1
rewrites = [['auto \[(\w+), (\w+), (\w+), (\w+)\] = topo_\.(minPin|maxPin)\(net, pl\);', 'const PinTuple verif_\5 = NetModel_\5(&this->topo_, net, pl); const int \1 = verif_\5.i; const int \2 = verif_\5.cell; const float \3 = verif_\5.offset; const float \4 = verif_\5.pos;', '2'],
            ['\btopo_\.(pinCell|pinOffset|pinPosition)\(net, (\w+)(?:, pl)?\)', 'PIN_\1_\2', '1+'],
            ['(?<![\w.>])addBipoint\(net, pl, epsilon\)', 'MatrixCreator_addBipointPl(this, net, pl, epsilon)', '1'],
            ['\btopo_\.(\w+)\(', 'NetModel_\1(&this->topo_, ', '1+'],
            ['(?<![\w.>])(addPin|addCell)\(', 'MatrixCreator_\1(this, ', '1+']]
[[loops]]
ordinal = 1
contract = """
__CPROVER_assigns(i, g_cnt, PIN_C)
__CPROVER_loop_invariant(0 <= i && i <= g_np && g_np > 2 && g_bip == 0 && g_cells_added == 1 && (g_i >= i ==> g_cnt == 0) && (g_i < i ==> g_cnt == 1))
__CPROVER_decreases(g_np - i)
"""
[[ghosts]]
at = 'body_start:1'
text = """GHOST(g_k = 0; g_cell_c = nondet_int(); g_off_c = nondet_float(); g_pos_c = nondet_float();) __CPROVER_assume(FIN(g_pos_c) && FIN(g_off_c)); /* the pin at hand: arbitrary finite values, so every spec assertion below holds for EVERY pin */"""
@*/
void harness(void) { MatrixCreator *mc; int net; const float *pl; float eps; MatrixCreator_addLightStar(mc, net, pl, eps); REACH("end"); }
#endif

#ifdef H_CLIQUE
#define VERIF_AT (i == g_i && j == g_j)
#define W_CLIQUE (2.0f * g_nw / (g_np * (g_np - 1)))
#define ADDPIN_SPEC(k, c1, c2, o1, o2, w) ((k) == 0 && REC(c1, c2, o1, o2, w, g_cell_c, g_cell_d, g_off_c, g_off_d, W_CLIQUE / std_max(epsilon, std_abs(g_pos_c - g_pos_d))))
void MatrixCreator_addCliquePl(MatrixCreator *this, int net, const float *pl, float epsilon)
__CPROVER_requires(__CPROVER_is_fresh(this, sizeof(MatrixCreator)) && NET_OK && 0 <= g_i && g_i < g_j && g_j < g_np)
/* C17: every pair of pins is tied exactly once with strength 2 weight / (n (n - 1)) / max(epsilon, distance) (checked at the call) */
__CPROVER_ensures(g_cnt == 1)
__CPROVER_assigns(g_cnt, PIN_C, g_cell_d, g_off_d, g_pos_d)
/*@extract
file = "src/place_global/net_model.cpp"
head = 'void MatrixCreator::addClique\(int net, const std::vector<float> &pl,\s*float epsilon\)'
nloops = 2
rewrites = [['\btopo_\.(pinCell|pinOffset|pinPosition)\(net, (\w+)(?:, pl)?\)', 'PIN_\1_\2', '1+'],
            ['\btopo_\.(\w+)\(', 'NetModel_\1(&this->topo_, ', '1+'],
            ['(?<![\w.>])(addPin|addCell)\(', 'MatrixCreator_\1(this, ', '1+']]
[[loops]]
ordinal = 1
contract = """
__CPROVER_assigns(i, g_cnt, PIN_C, g_cell_d, g_off_d, g_pos_d)
__CPROVER_loop_invariant(0 <= i && i <= g_np - 1 && nb == g_np && (g_i >= i ==> g_cnt == 0) && (g_i < i ==> g_cnt == 1))
__CPROVER_decreases(g_np - i)
"""
[[loops]]
ordinal = 2
contract = """
__CPROVER_assigns(j, g_cnt, g_k, g_cell_d, g_off_d, g_pos_d)
__CPROVER_loop_invariant(i + 1 <= j && j <= g_np && (i != g_i ==> g_cnt == (g_i < i ? 1 : 0)) && (i == g_i ==> g_cnt == (g_j < j ? 1 : 0)))
__CPROVER_decreases(g_np - j)
"""
[[ghosts]]
at = 'body_start:1'
text = """GHOST(g_k = 0; g_cell_c = nondet_int(); g_off_c = nondet_float(); g_pos_c = nondet_float();) __CPROVER_assume(FIN(g_pos_c) && FIN(g_off_c)); /* the pin at hand: arbitrary finite values, so every spec assertion below holds for EVERY pin */"""
[[ghosts]]
at = 'body_start:2'
text = """GHOST(g_k = 0; g_cell_d = nondet_int(); g_off_d = nondet_float(); g_pos_d = nondet_float();) __CPROVER_assume(FIN(g_pos_d) && FIN(g_off_d));"""
@*/
void harness(void) { MatrixCreator *mc; int net; const float *pl; float eps; MatrixCreator_addCliquePl(mc, net, pl, eps); REACH("end"); }
#endif

#ifdef H_BIPOINT
#define VERIF_AT 1
#define ADDPIN_SPEC(k, c1, c2, o1, o2, w) ((k) == 0 && REC(c1, c2, o1, o2, w, g_cell_c, g_cell_d, g_off_c, g_off_d, g_nw / std_max(epsilon, std_abs(g_pos_c - g_pos_d))))
void MatrixCreator_addBipointPl(MatrixCreator *this, int net, const float *pl, float epsilon)
__CPROVER_requires(__CPROVER_is_fresh(this, sizeof(MatrixCreator)) && NET_OK)
/* C17: the two pins are tied once with strength weight / max(epsilon, distance) (checked at the call) */
__CPROVER_ensures(g_cnt == 1)
__CPROVER_assigns(g_cnt, g_k)
/*@extract
file = "src/place_global/net_model.cpp"
head = 'void MatrixCreator::addBipoint\(int net, const std::vector<float> &pl,\s*float epsilon\)'
rewrites = [['\btopo_\.(pinCell|pinOffset|pinPosition)\(net, (\w+)(?:, pl)?\)', 'PIN_\1_\2', '1+'],
            ['\btopo_\.(\w+)\(', 'NetModel_\1(&this->topo_, ', '1+'],
            ['(?<![\w.>])(addPin|addCell)\(', 'MatrixCreator_\1(this, ', '1+']]
@*/
void harness(void) { MatrixCreator *mc; int net; const float *pl; float eps; MatrixCreator_addBipointPl(mc, net, pl, eps); REACH("end"); }
#endif
