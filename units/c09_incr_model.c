/*@unit
properties = ["C09", "C05"]
mode = "dfcc"
enforce = "IncrNetModel_updateCellPos"
timeout = 600
function = "IncrNetModel::computeNetMinMaxPos(int), recomputeNet, updateCellPos (incr_net_model.cpp)"
variants = [
  {name = "minmax", enforce = "IncrNetModel_computeNetMinMaxPos", defines = ["H_MINMAX"]},
  {name = "recompute", enforce = "IncrNetModel_recomputeNet", defines = ["H_RECOMPUTE"], replace = ["IncrNetModel_computeNetMinMaxPos"]},
  {name = "update", enforce = "IncrNetModel_updateCellPos", defines = ["H_UPDATE"], replace = ["IncrNetModel_recomputeNet"]},
]
assumptions = ["named invariants of the CSR arrays (netCells_[k] in [0,nbCells), cellNets_[k] in [0,nbNets), limits non-decreasing within [0,nbPins]) are instantiated at the loop indices; IncrNetModel::check() tests them at construction",
               "transpose completeness T (every pin (net,q) on a cell is listed among the cell's nets) is supplied as a ghost witness slot; it is established by finalize() (not under contract)",
               "value_ == sum of spans: maintained per net by recomputeNet's delta postcondition; the algebra of the sum is a paper step"]
[replay]
template = "replay/c09_incr_search.cpp"
search = true
inputs = []
@*/
#include "lower.h"
int verif_exc;
/*@include units/inc/incr_net_model.inc @*/

#define NMAX 4096
#define LIM 16777216
#define INLIM(v) ((v) >= -LIM && (v) <= LIM)
int nc, nn, np;
/* ghost net G and an arbitrary pin of it (cell g_qc, offset g_qoff): facts proved about it hold for every pin */
int G, g_q, g_qc, g_qoff, g_qpos, g_base, g_lim;
/* ghost witnesses of attainment */
int g_wmin, g_wmax;
/* slot of G in the list of nets of the moved cell, when the ghost pin sits on that cell */
int g_wT;
Pair_int_int g_new, g_old; long long g_value_before;

#define MODEL_NETS \
  __CPROVER_requires(nc >= 1 && nc <= NMAX && nn >= 1 && nn <= NMAX && np >= 0 && np <= NMAX) \
  __CPROVER_requires(FRESH_THIS(IncrNetModel) && FRESH_ARR(cellPos_, nc, int) && FRESH_ARR(netLimits_, nn + 1, int) && FRESH_ARR(netCells_, np, int) && FRESH_ARR(netPinOffsets_, np, int))

/* ------------------------------------------------------------------ computeNetMinMaxPos(net) */
#undef VERIF_DUMMY
#define std_make_pair(a, b) ((Pair_int_int){(a), (b)})
Pair_int_int IncrNetModel_computeNetMinMaxPos(const IncrNetModel *this, int net)
#ifdef H_MINMAX
MODEL_NETS
#endif
__CPROVER_requires(net >= 0 && net < nn)
#ifdef H_MINMAX
__CPROVER_requires(g_base == netLimits_[net] && g_lim == netLimits_[net + 1] && 0 <= g_base && g_base <= g_lim && g_lim <= np)
/* ghost pin q of this net */
__CPROVER_requires(0 <= g_q && g_q < g_lim - g_base && g_qc == netCells_[g_base + g_q] && 0 <= g_qc && g_qc < nc && g_qoff == netPinOffsets_[g_base + g_q])
__CPROVER_requires(INLIM(cellPos_[g_qc]) && INLIM(g_qoff) && g_qpos == cellPos_[g_qc] + g_qoff)
__CPROVER_ensures(__CPROVER_return_value.first <= g_qpos && g_qpos <= __CPROVER_return_value.second)
__CPROVER_ensures(__CPROVER_return_value.first == g_wmin && __CPROVER_return_value.second == g_wmax)
__CPROVER_assigns(g_wmin, g_wmax)
#else
/* contract used by recomputeNet: the result bounds the ghost pin of the ghost net (proved by variant minmax);
 * a net of the model has at least one pin (IncrNetModel::check), so min <= max */
__CPROVER_ensures(__CPROVER_return_value.first == g_new.first && __CPROVER_return_value.second == g_new.second)
__CPROVER_assigns()
#endif
#ifdef H_MINMAX
/*@extract
file = "src/place_detailed/incr_net_model.cpp"
head = 'std::pair<int, int> IncrNetModel::computeNetMinMaxPos\(int net\) const'
nloops = 1
[[loops]]
ordinal = 1
contract = '''
__CPROVER_assigns(j, minPos, maxPos, g_wmin, g_wmax)
__CPROVER_loop_invariant(0 <= j && j <= g_lim - g_base)
__CPROVER_loop_invariant(j == 0 ==> (minPos == INT_MAX && maxPos == INT_MIN))
__CPROVER_loop_invariant(j > 0 ==> (minPos == g_wmin && maxPos == g_wmax && minPos <= maxPos && minPos >= -2 * LIM && maxPos <= 2 * LIM))
__CPROVER_loop_invariant(g_q < j ==> (minPos <= g_qpos && g_qpos <= maxPos))
__CPROVER_decreases(g_lim - g_base - j)
'''
[[ghosts]]
after = 'int c = pinCell\(net, j\);'
text = '''__CPROVER_assume(c >= 0 && c < nc); /* INSTANTIATE netCells_in_range(net, j) */
GHOST(const int g_cp = cellPos_[c]; const int g_k = g_base + j; const int g_ko = netPinOffsets_[g_k];) __CPROVER_assume(INLIM(g_cp) && INLIM(g_ko)); /* INSTANTIATE MAG */'''
[[ghosts]]
at = 'body_end:1'
text = '''GHOST(if (j == 0 || pinPos < g_wmin) g_wmin = pinPos; if (j == 0 || pinPos > g_wmax) g_wmax = pinPos;)
__CPROVER_assert(j != g_q || pinPos == g_qpos, "spec: pin position = cell position + pin offset");'''
@*/
#else
;
#endif
#define computeNetMinMaxPos(n) IncrNetModel_computeNetMinMaxPos(this, n)

/* ------------------------------------------------------------------ recomputeNet(net) */
void IncrNetModel_recomputeNet(IncrNetModel *this, int net)
#ifdef H_RECOMPUTE
__CPROVER_requires(nn >= 1 && nn <= NMAX && FRESH_THIS(IncrNetModel) && FRESH_ARR(netMinMaxPos_, nn, Pair_int_int))
__CPROVER_requires(net >= 0 && net < nn)
__CPROVER_requires(g_old.first == netMinMaxPos_[net].first && g_old.second == netMinMaxPos_[net].second && g_value_before == value_)
__CPROVER_requires(-2 * LIM <= g_old.first && g_old.first <= g_old.second && g_old.second <= 2 * LIM && -2 * LIM <= g_new.first && g_new.first <= g_new.second && g_new.second <= 2 * LIM)
__CPROVER_requires(0 <= value_ && value_ <= (long long)NMAX * 4 * LIM)
/* the stored bounds become the fresh ones, and the total moves by exactly the change of this net's span (wide arithmetic) */
__CPROVER_ensures(netMinMaxPos_[net].first == g_new.first && netMinMaxPos_[net].second == g_new.second)
__CPROVER_ensures(value_ == g_value_before + ((long long)g_new.second - g_new.first) - ((long long)g_old.second - g_old.first))
__CPROVER_assigns(netMinMaxPos_[net], value_)
/*@extract
file = "src/place_detailed/incr_net_model.cpp"
head = 'void IncrNetModel::recomputeNet\(int net\)'
rewrites = [['\bauto (newMinMaxPos|oldMinMaxPos)\b', 'Pair_int_int \1', '2']]
@*/
#else
/* contract used by updateCellPos: afterwards the stored bounds of `net` bound every pin of it under the
 * current positions — stated for the ghost pin when net is the ghost net (variants minmax + recompute) */
__CPROVER_requires(net >= 0 && net < nn)
__CPROVER_ensures(net == G ==> (netMinMaxPos_[G].first <= cellPos_[g_qc] + g_qoff && cellPos_[g_qc] + g_qoff <= netMinMaxPos_[G].second))
__CPROVER_assigns(netMinMaxPos_[net], value_)
;
#endif
#define recomputeNet(n) IncrNetModel_recomputeNet(this, n)

/* ------------------------------------------------------------------ updateCellPos(cell, pos) */
#ifdef H_UPDATE
void IncrNetModel_updateCellPos(IncrNetModel *this, int cell, int pos)
__CPROVER_requires(nc >= 1 && nc <= NMAX && nn >= 1 && nn <= NMAX && np >= 0 && np <= NMAX)
__CPROVER_requires(FRESH_THIS(IncrNetModel) && FRESH_ARR(cellPos_, nc, int) && FRESH_ARR(cellLimits_, nc + 1, int) && FRESH_ARR(cellNets_, np, int) && FRESH_ARR(netMinMaxPos_, nn, Pair_int_int))
__CPROVER_requires(0 <= cell && cell < nc && INLIM(pos))
__CPROVER_requires(g_base == cellLimits_[cell] && g_lim == cellLimits_[cell + 1] && 0 <= g_base && g_base <= g_lim && g_lim <= np)
__CPROVER_requires(0 <= G && G < nn && 0 <= g_qc && g_qc < nc && INLIM(g_qoff) && INLIM(cellPos_[g_qc]))
/* J(G, ghost pin) holds before the call */
__CPROVER_requires(netMinMaxPos_[G].first <= cellPos_[g_qc] + g_qoff && cellPos_[g_qc] + g_qoff <= netMinMaxPos_[G].second)
/* T: if the ghost pin sits on `cell`, G is listed among the cell's nets at slot g_wT */
__CPROVER_requires(g_qc == cell ==> (g_base <= g_wT && g_wT < g_lim && cellNets_[g_wT] == G))
__CPROVER_ensures(cellPos_[cell] == pos)
__CPROVER_ensures(netMinMaxPos_[G].first <= cellPos_[g_qc] + g_qoff && cellPos_[g_qc] + g_qoff <= netMinMaxPos_[G].second)
__CPROVER_assigns(cellPos_[cell], __CPROVER_object_whole(netMinMaxPos_), value_)
/*@extract
file = "src/place_detailed/incr_net_model.cpp"
head = 'void IncrNetModel::updateCellPos\(int cell, int pos\)'
nloops = 1
[[loops]]
ordinal = 1
contract = '''
__CPROVER_assigns(i, __CPROVER_object_whole(netMinMaxPos_), value_)
__CPROVER_loop_invariant(0 <= i && i <= g_lim - g_base)
__CPROVER_loop_invariant((g_qc != cell || i > g_wT - g_base) ==> (netMinMaxPos_[G].first <= g_gpos && g_gpos <= netMinMaxPos_[G].second))
__CPROVER_decreases(g_lim - g_base - i)
'''
[[ghosts]]
at = 'before:1'
text = '''GHOST(const int g_gpos = cellPos_[g_qc] + g_qoff;) /* ghost snapshot: cellPos_ is not assigned in the loop */'''
[[ghosts]]
after = 'int net = pinNet\(cell, i\);'
text = '''__CPROVER_assume(0 <= net && net < nn); /* INSTANTIATE cellNets_in_range(cell, i) */'''
@*/
#endif

void harness(void) {
  IncrNetModel *m; int a, b;
#if defined(H_MINMAX)
  IncrNetModel_computeNetMinMaxPos(m, a);
#elif defined(H_RECOMPUTE)
  IncrNetModel_recomputeNet(m, a);
#else
  IncrNetModel_updateCellPos(m, a, b);
#endif
  REACH("end");
}
