/*@unit
properties = ["C02", "C04"]
mode = "plain"
tier = "thorough"
timeout = 2400
memory_gb = 16
solver = "kissat"
function = "DetailedPlacement::insert, swap with canInsert/canSwap/positionOnInsert/positionsOnSwap/place/unplace inlined (detailed_placement.cpp)"
variants = [
  {name = "insert_small", defines = ["H_INSERT", "SMALL"], bounded = "insert over every well-formed state with n <= 9 cells, m <= 3 rows (arrays of fixed size)"},
  {name = "insert", defines = ["H_INSERT"], tier = "thorough", timeout = 3000},
  {name = "swap_small", defines = ["H_SWAP", "SMALL"], bounded = "swap over every well-formed state with n <= 9 cells, m <= 3 rows (arrays of fixed size; 9 = the cells swap and the ghost cell can touch)"},
]
assumptions = ["direct mode: the contract is stated as assume(requires) / assert(ensures) around a plain call, callees inlined; the frame is stated per array through a ghost index instead of an assigns clause (DFCC instrumentation of these multi-write bodies exceeds memory)",
               "chain lemma (paper), see c02_dp_place"]
[replay]
template = "replay/c02_detailed_history.cpp"
search = true
inputs = []
@*/
#include "lower.h"
int verif_exc;
/*@include units/inc/detailed_placement.inc @*/
#ifdef SMALL
#define NMAX 9
#define RMAX 3
#else
#define NMAX 1000
#define RMAX 100
#endif
int ghost_g, ghost_r;

void DetailedPlacement_place(DetailedPlacement *this, int c, int row, int pred, int x)
/*@extract
file = "src/place_detailed/detailed_placement.cpp"
head = 'void DetailedPlacement::place\(int c, int row, int pred, int x\)'
this_members = {file = "src/place_detailed/detailed_placement.hpp", class = "DetailedPlacement"}
@*/
void DetailedPlacement_unplace(DetailedPlacement *this, int c)
/*@extract
file = "src/place_detailed/detailed_placement.cpp"
head = 'void DetailedPlacement::unplace\(int c\)'
this_members = {file = "src/place_detailed/detailed_placement.hpp", class = "DetailedPlacement"}
@*/
#define place(c, r, p, x) DetailedPlacement_place(this, c, r, p, x)
#define unplace(c) DetailedPlacement_unplace(this, c)
void DetailedPlacement_insert(DetailedPlacement *this, int c, int row, int pred)
/*@extract
file = "src/place_detailed/detailed_placement.cpp"
head = 'void DetailedPlacement::insert\(int c, int row, int pred\)'
this_members = {file = "src/place_detailed/detailed_placement.hpp", class = "DetailedPlacement"}
rewrites = [['\b(place\([^;]*\);)', '\1 VERIF_PROPAGATE;', '1+'], ['(Point pos = positionOnInsert\([^;]*\);)', '\1 VERIF_PROPAGATE;', '*']]
@*/
void DetailedPlacement_swap(DetailedPlacement *this, int c1, int c2)
/*@extract
file = "src/place_detailed/detailed_placement.cpp"
head = 'void DetailedPlacement::swap\(int c1, int c2\)'
this_members = {file = "src/place_detailed/detailed_placement.hpp", class = "DetailedPlacement"}
rewrites = [['auto \[pos1, pos2\] = positionsOnSwap\(c1, c2\);', 'Pair_Point_Point verif_pp = positionsOnSwap(c1, c2); VERIF_PROPAGATE; Point pos1 = verif_pp.first; Point pos2 = verif_pp.second;', '1'],
            ['\b(place\([^;]*\);)', '\1 VERIF_PROPAGATE;', '1+']]
@*/

static bool INV_inst_insert(const DetailedPlacement *p, int c, int row, int pred) {
  int g = ghost_g, gr = ghost_r;
  if (!(0 <= g && g < p->cellWidth__size && 0 <= gr && gr < p->rows__size)) return false;
  int on = pred == -1 ? p->rowFirstCell_[row] : dp_nxt(p, pred);
  return INV_at(p, c) && INV_at(p, pred) && INV_at(p, g) && INV_at(p, on)
    && INV_at(p, dp_prv(p, c)) && INV_at(p, dp_nxt(p, c)) && INV_at(p, dp_prv(p, g)) && INV_at(p, dp_nxt(p, g))
    && RINV_at(p, gr) && RINV_at(p, row);
}
static bool INV_inst_swap(const DetailedPlacement *p, int c1, int c2) {
  int g = ghost_g, gr = ghost_r;
  if (!(0 <= g && g < p->cellWidth__size && 0 <= gr && gr < p->rows__size)) return false;
  return INV_at(p, c1) && INV_at(p, c2) && INV_at(p, g)
    && INV_at(p, dp_prv(p, c1)) && INV_at(p, dp_nxt(p, c1)) && INV_at(p, dp_prv(p, c2)) && INV_at(p, dp_nxt(p, c2))
    && INV_at(p, dp_prv(p, g)) && INV_at(p, dp_nxt(p, g)) && RINV_at(p, gr);
}
int nondet_int(void);
void harness(void) {
  DetailedPlacement dp; DetailedPlacement *this = &dp;
#ifdef SMALL
  int n = NMAX, m = RMAX;
  Row rows[RMAX]; int rf[RMAX], rl[RMAX]; int cw[NMAX], cp[NMAX], cn[NMAX], cr[NMAX], cx[NMAX], cy[NMAX]; CellOrientation co[NMAX]; CellRowPolarity cpol[NMAX];
  this->rows_ = rows; this->rowFirstCell_ = rf; this->rowLastCell_ = rl; this->cellWidth_ = cw; this->cellPred_ = cp; this->cellNext_ = cn; this->cellRow_ = cr; this->cellX_ = cx; this->cellY_ = cy; this->cellOrientation_ = co; this->cellRowPolarity_ = cpol;
#else
  int n = nondet_int(), m = nondet_int();
  __CPROVER_assume(1 <= n && n <= NMAX && 1 <= m && m <= RMAX);
  this->rows_ = malloc(sizeof(Row) * m); this->rowFirstCell_ = malloc(sizeof(int) * m); this->rowLastCell_ = malloc(sizeof(int) * m);
  this->cellWidth_ = malloc(sizeof(int) * n); this->cellPred_ = malloc(sizeof(int) * n); this->cellNext_ = malloc(sizeof(int) * n);
  this->cellRow_ = malloc(sizeof(int) * n); this->cellX_ = malloc(sizeof(int) * n); this->cellY_ = malloc(sizeof(int) * n);
  this->cellOrientation_ = malloc(sizeof(CellOrientation) * n); this->cellRowPolarity_ = malloc(sizeof(CellRowPolarity) * n);
#endif
  this->rows__size = m; this->rowFirstCell__size = m; this->rowLastCell__size = m;
  this->cellWidth__size = n; this->cellPred__size = n; this->cellNext__size = n; this->cellRow__size = n; this->cellX__size = n; this->cellY__size = n; this->cellOrientation__size = n; this->cellRowPolarity__size = n;
  verif_exc = 0;
  const int g = ghost_g;
#ifdef H_INSERT
  int c = nondet_int(), row = nondet_int(), pred = nondet_int();
  /* requires */
  __CPROVER_assume(0 <= c && c < n && 0 <= row && row < m && (pred == -1 || (0 <= pred && pred < n && this->cellRow_[pred] == row)));
  __CPROVER_assume(INV_inst_insert(this, c, row, pred));
  const int ox = this->cellX_[g], oy = this->cellY_[g], orow = this->cellRow_[g]; const CellOrientation oo = this->cellOrientation_[g];
  const bool placed = this->cellRow_[c] != -1;
  const bool can = placed && DetailedPlacement_canInsert(this, c, row, pred);
  DetailedPlacement_insert(this, c, row, pred);
  /* ensures */
  __CPROVER_assert(LWF(this, ghost_g), "spec C02/C04: insert keeps every cell locally well-formed (ordered, disjoint, inside its row, prescribed orientation)");
  __CPROVER_assert(RWF(this, ghost_r), "spec C02: insert keeps every row well-formed");
  __CPROVER_assert(can == !verif_exc, "spec C02: insert succeeds exactly when canInsert admits it (the computed position fits the site and the row admits the polarity)");
  __CPROVER_assert(g == c || (this->cellX_[g] == ox && this->cellY_[g] == oy && this->cellRow_[g] == orow && this->cellOrientation_[g] == oo), "spec C02: cells other than the inserted one neither move nor turn");
  __CPROVER_assert(verif_exc || (this->cellRow_[c] == row && this->cellPred_[c] == pred), "spec: the cell sits in the destination site");
  __CPROVER_assert(!verif_exc || g != c || (this->cellX_[g] == ox && this->cellRow_[g] == orow), "spec: a refused insertion changes nothing");
#else
  int c1 = nondet_int(), c2 = nondet_int();
  __CPROVER_assume(0 <= c1 && c1 < n && 0 <= c2 && c2 < n);
  __CPROVER_assume(INV_inst_swap(this, c1, c2));
  const int ox = this->cellX_[g], oy = this->cellY_[g], orow = this->cellRow_[g]; const CellOrientation oo = this->cellOrientation_[g];
  const int r1 = this->cellRow_[c1], r2 = this->cellRow_[c2];
  const bool placed = r1 != -1 && r2 != -1;
  const bool can = placed && DetailedPlacement_canSwap(this, c1, c2);
  DetailedPlacement_swap(this, c1, c2);
  __CPROVER_assert(LWF(this, ghost_g), "spec C02/C04: swap keeps every cell locally well-formed (ordered, disjoint, inside its row, prescribed orientation)");
  __CPROVER_assert(RWF(this, ghost_r), "spec C02: swap keeps every row well-formed");
  __CPROVER_assert(can == !verif_exc, "spec C02: swap succeeds exactly when canSwap admits it");
  __CPROVER_assert(g == c1 || g == c2 || (this->cellX_[g] == ox && this->cellY_[g] == oy && this->cellRow_[g] == orow && this->cellOrientation_[g] == oo), "spec C02: cells other than the swapped ones neither move nor turn");
  __CPROVER_assert(verif_exc || (this->cellRow_[c1] == r2 && this->cellRow_[c2] == r1), "spec: the two cells exchange rows");
#endif
  REACH("end");
}
