/*@unit
properties = ["C10", "C19"]
mode = "dfcc"
enforce = "Circuit_addNet"
timeout = 300
function = "Circuit::addNet, setNets, setRows, setupRows, setCellIsFixed, setCellIsObstruction, setCellRowPolarity, checkNotInUse, setCellX/Y/Width/Height/Orientation, setNetWeights (coloquinte.cpp)"
variants = [
  {name = "addNet", enforce = "Circuit_addNet", defines = ["H_ADDNET"]},
  {name = "setNets", enforce = "Circuit_setNets", defines = ["H_SETNETS"]},
  {name = "setRows", enforce = "Circuit_setRows", defines = ["H_SETROWS"]},
  {name = "setupRows", enforce = "Circuit_setupRows", defines = ["H_SETUPROWS"]},
  {name = "setCellIsFixed", enforce = "Circuit_setCellIsFixed", defines = ["H_FIXED"]},
  {name = "setCellIsObstruction", enforce = "Circuit_setCellIsObstruction", defines = ["H_OBS"]},
  {name = "setCellRowPolarity", enforce = "Circuit_setCellRowPolarity", defines = ["H_POL"]},
  {name = "lengths", enforce = "Circuit_setCellX", defines = ["H_LEN_X"]},
  {name = "lengthsY", enforce = "Circuit_setCellY", defines = ["H_LEN_Y"]},
  {name = "lengthsW", enforce = "Circuit_setCellWidth", defines = ["H_LEN_W"]},
  {name = "lengthsH", enforce = "Circuit_setCellHeight", defines = ["H_LEN_H"]},
  {name = "lengthsO", enforce = "Circuit_setCellOrientation", defines = ["H_LEN_O"]},
  {name = "netWeights", enforce = "Circuit_setNetWeights", defines = ["H_LEN_NW"]},
]
assumptions = ["std::vector copy assignment / insert / push_back / clear are modelled by prelude/containers_abs.h (element count exact, 'touched' flag; contents of grown vectors not modelled)"]
[replay]
template = "replay/c10_busy.cpp"
search = true
inputs = []
@*/
#include "lower.h"
int verif_exc;
int verif_vec_touched;
#include "containers_abs.h"
/*@include units/inc/circuit.inc @*/

#define NMAX 100000
/* every vector of the circuit keeps its storage and its length, no scalar flag changes, no vector operation ran */
#define UNCHANGED_VEC(f) (f == __CPROVER_old(f) && f##_size == __CPROVER_old(f##_size))
#define CIRCUIT_UNCHANGED ( verif_vec_touched == 0 && \
  UNCHANGED_VEC(netLimits_) && UNCHANGED_VEC(netWeights_) && UNCHANGED_VEC(pinCells_) && UNCHANGED_VEC(pinXOffsets_) && UNCHANGED_VEC(pinYOffsets_) && \
  UNCHANGED_VEC(cellWidth_) && UNCHANGED_VEC(cellHeight_) && UNCHANGED_VEC(cellIsFixed_) && UNCHANGED_VEC(cellIsObstruction_) && UNCHANGED_VEC(cellRowPolarity_) && \
  UNCHANGED_VEC(cellX_) && UNCHANGED_VEC(cellY_) && UNCHANGED_VEC(cellOrientation_) && UNCHANGED_VEC(rows_) && \
  isInUse_ == __CPROVER_old(isInUse_) && hasCellSizeUpdate_ == __CPROVER_old(hasCellSizeUpdate_) && hasNetUpdate_ == __CPROVER_old(hasNetUpdate_))
#define SIZES_SANE (cellWidth__size >= 0 && cellWidth__size <= NMAX && netLimits__size >= 1 && netLimits__size <= NMAX && pinCells__size >= 0 && pinCells__size <= NMAX \
  && pinXOffsets__size >= 0 && pinXOffsets__size <= NMAX && pinYOffsets__size >= 0 && pinYOffsets__size <= NMAX && netWeights__size >= 0 && netWeights__size <= NMAX && rows__size >= 0 && rows__size <= NMAX)
#define PRE __CPROVER_requires(FRESH_THIS(Circuit) && verif_exc == 0 && verif_vec_touched == 0 && SIZES_SANE)
#define FRAME __CPROVER_assigns(verif_exc, verif_vec_touched, __CPROVER_object_whole(this))
/* the busy protocol (C10): a structural modification of a circuit in use is refused and changes nothing */
#define BUSY_REFUSED __CPROVER_ensures(__CPROVER_old(isInUse_) ==> (verif_exc && CIRCUIT_UNCHANGED))
/* every exceptional exit leaves the circuit exactly as it was (C10, C19) */
#define THROW_ATOMIC __CPROVER_ensures(verif_exc ==> CIRCUIT_UNCHANGED)

void Circuit_checkNotInUse(const Circuit *this)
__CPROVER_requires(__CPROVER_r_ok(this, sizeof(Circuit)))
__CPROVER_ensures((verif_exc != 0) == (__CPROVER_old(verif_exc) != 0 || isInUse_))
__CPROVER_assigns(verif_exc)
/*@extract
file = "src/coloquinte.cpp"
head = 'void Circuit::checkNotInUse\(\) const'
@*/
#define checkNotInUse() do { Circuit_checkNotInUse(this); VERIF_PROPAGATE; } while (0)

/* ---------------------------------------------------------------- addNet */
int g_idx; /* ghost index into the pins of the new net(s) */
#ifdef H_ADDNET
void Circuit_addNet(Circuit *this, const int *cells, int cells_size, const int *xOffsets, int xOffsets_size, const int *yOffsets, int yOffsets_size, float weight)
PRE
__CPROVER_requires(cells_size >= 0 && cells_size <= NMAX && xOffsets_size >= 0 && xOffsets_size <= NMAX && yOffsets_size >= 0 && yOffsets_size <= NMAX)
__CPROVER_requires(__CPROVER_is_fresh(cells, cells_size * sizeof(int)) && FRESH_ARR(netLimits_, netLimits__size, int))
__CPROVER_requires(0 <= g_idx && g_idx < cells_size)
BUSY_REFUSED THROW_ATOMIC
/* C19: inconsistent lengths or a pin on a non-existent cell => refused */
__CPROVER_ensures((cells_size != xOffsets_size || cells_size != yOffsets_size) ==> verif_exc)
__CPROVER_ensures((cells[g_idx] < 0 || cells[g_idx] >= cellWidth__size) ==> verif_exc)
/* accepted: one more net with exactly these pins (an empty pin list adds nothing) */
__CPROVER_ensures((!verif_exc && cells_size > 0) ==> (netLimits__size == __CPROVER_old(netLimits__size) + 1 && netWeights__size == __CPROVER_old(netWeights__size) + 1
    && pinCells__size == __CPROVER_old(pinCells__size) + cells_size && pinXOffsets__size == __CPROVER_old(pinXOffsets__size) + cells_size && pinYOffsets__size == __CPROVER_old(pinYOffsets__size) + cells_size))
__CPROVER_ensures((!verif_exc && cells_size == 0) ==> CIRCUIT_UNCHANGED)
FRAME
/*@extract
file = "src/coloquinte.cpp"
head = 'void Circuit::addNet\('
[[loops]]
ordinal = 1
contract = '''
__CPROVER_assigns(_i_c)
__CPROVER_loop_invariant(0 <= _i_c && _i_c <= cells_size)
__CPROVER_loop_invariant(g_idx < _i_c ==> (cells[g_idx] >= 0 && cells[g_idx] < cellWidth__size))
__CPROVER_decreases(cells_size - _i_c)
'''
@*/
#endif

/* ---------------------------------------------------------------- setNets */
#ifdef H_SETNETS
void Circuit_setNets(Circuit *this, const int *limits, int limits_size, const int *cells, int cells_size, const int *xOffsets, int xOffsets_size,
                     const int *yOffsets, int yOffsets_size, const float *weights, int weights_size)
PRE
__CPROVER_requires(limits_size >= 0 && limits_size <= NMAX && cells_size >= 0 && cells_size <= NMAX && xOffsets_size >= 0 && xOffsets_size <= NMAX && yOffsets_size >= 0 && yOffsets_size <= NMAX && weights_size >= 0 && weights_size <= NMAX)
__CPROVER_requires(__CPROVER_is_fresh(cells, cells_size * sizeof(int)) && __CPROVER_is_fresh(limits, limits_size * sizeof(int)))
__CPROVER_requires(0 <= g_idx && g_idx <= NMAX)
BUSY_REFUSED THROW_ATOMIC
__CPROVER_ensures((limits_size == 0 || limits[0] != 0) ==> verif_exc)
__CPROVER_ensures((limits_size > 0 && (limits[limits_size - 1] != cells_size || limits[limits_size - 1] != xOffsets_size || limits[limits_size - 1] != yOffsets_size)) ==> verif_exc)
__CPROVER_ensures((limits_size != weights_size + 1 && weights_size != 0) ==> verif_exc)
__CPROVER_ensures((g_idx < cells_size && (cells[g_idx] < 0 || cells[g_idx] >= cellWidth__size)) ==> verif_exc)
__CPROVER_ensures((g_idx + 1 < limits_size && limits[g_idx] > limits[g_idx + 1]) ==> verif_exc)
__CPROVER_ensures(!verif_exc ==> (netLimits__size == limits_size && pinCells__size == cells_size && pinXOffsets__size == xOffsets_size && pinYOffsets__size == yOffsets_size && netWeights__size == limits_size - 1 && hasNetUpdate_))
FRAME
/*@extract
file = "src/coloquinte.cpp"
head = 'void Circuit::setNets\('
rewrites = [['\b(netLimits_|pinCells_|pinXOffsets_|pinYOffsets_|netWeights_) = (\w+);', 'VEC_COPY(\1, \2);', '5'],
            ['\(size_t\)', '(size_t)', '*'], ['size_t i = (\d+); i( \+ 1)? < limits\.size\(\)', 'int i = \1; i\2 < limits_size', '1']]
[[loops]]
ordinal = 1
contract = '''
__CPROVER_assigns(i)
__CPROVER_loop_invariant(0 <= i && (i <= limits_size || i <= 2))
__CPROVER_loop_invariant((g_idx < i && g_idx + 1 < limits_size) ==> limits[g_idx] <= limits[g_idx + 1])
__CPROVER_decreases(limits_size - i)
'''
[[loops]]
ordinal = 2
contract = '''
__CPROVER_assigns(_i_c)
__CPROVER_loop_invariant(0 <= _i_c && _i_c <= cells_size)
__CPROVER_loop_invariant(g_idx < _i_c ==> (cells[g_idx] >= 0 && cells[g_idx] < cellWidth__size))
__CPROVER_decreases(cells_size - _i_c)
'''
@*/
#endif

/* ---------------------------------------------------------------- setRows / setupRows */
#ifdef H_SETROWS
void Circuit_setRows(Circuit *this, Row *r, int r_size)
PRE
__CPROVER_requires(r_size >= 0 && r_size <= NMAX)
BUSY_REFUSED THROW_ATOMIC
__CPROVER_ensures(!verif_exc ==> (rows_ == r && rows__size == r_size))
FRAME
/*@extract
file = "src/coloquinte.cpp"
head = 'void Circuit::setRows\('
rewrites = [['\brows_ = r;', 'VEC_COPY(rows_, r);', '1']]
@*/
#endif
#ifdef H_SETUPROWS
int g_rows_pushed;
#undef VEC_PUSH_BACK
#define VEC_EMPLACE_ROW(v, a, b, c, d, e) do { __CPROVER_assert((d) - (c) == rowHeight && (a) == placementArea.minX && (b) == placementArea.maxX && (c) >= placementArea.minY && (d) <= placementArea.maxY, "spec: created rows have the requested height and lie inside the area"); v##_size = v##_size + 1; VEC_TOUCH(v); } while (0)
void Circuit_setupRows(Circuit *this, Rectangle placementArea, int rowHeight, bool alternatingOrientation, bool initialOrientation)
PRE
__CPROVER_requires(MAGV(placementArea.minX) && MAGV(placementArea.maxX) && MAGV(placementArea.minY) && MAGV(placementArea.maxY) && rowHeight <= 4194304)
BUSY_REFUSED THROW_ATOMIC
__CPROVER_ensures(rowHeight <= 0 ==> verif_exc)
FRAME
/*@extract
file = "src/coloquinte.cpp"
head = 'void Circuit::setupRows\('
rewrites = [['rows_\.emplace_back\(', 'VEC_EMPLACE_ROW(rows_, ', '1']]
[[loops]]
ordinal = 1
contract = '''
__CPROVER_assigns(y, orient, rows__size, verif_vec_touched)
__CPROVER_loop_invariant(y >= placementArea.minY && y <= placementArea.maxY && rows__size >= 0 && rows__size <= (y - placementArea.minY))
__CPROVER_decreases(placementArea.maxY - y)
'''
@*/
#endif

/* ---------------------------------------------------------------- per-cell flag setters */
#define LEN_SETTER(NAME, T, ARG, FIELD) \
void Circuit_##NAME(Circuit *this, T *ARG, int ARG##_size) \
PRE \
__CPROVER_requires(ARG##_size >= 0 && ARG##_size <= NMAX) \
BUSY_REFUSED THROW_ATOMIC \
__CPROVER_ensures(ARG##_size != __CPROVER_old(cellWidth__size) ==> verif_exc) \
__CPROVER_ensures(!verif_exc ==> (FIELD == ARG && FIELD##_size == ARG##_size)) \
FRAME
/* setters that are not structural: accepted while in use, but still length-checked */
#define LEN_SETTER_FREE(NAME, T, ARG, FIELD, COUNT) \
void Circuit_##NAME(Circuit *this, T *ARG, int ARG##_size) \
PRE \
__CPROVER_requires(ARG##_size >= 0 && ARG##_size <= NMAX) \
THROW_ATOMIC \
__CPROVER_ensures(ARG##_size != COUNT ==> verif_exc) \
__CPROVER_ensures(!verif_exc ==> (FIELD == ARG && FIELD##_size == ARG##_size)) \
FRAME

#ifdef H_FIXED
LEN_SETTER(setCellIsFixed, bool, f, cellIsFixed_)
/*@extract
file = "src/coloquinte.cpp"
head = 'void Circuit::setCellIsFixed\('
rewrites = [['\bcellIsFixed_ = f;', 'VEC_COPY(cellIsFixed_, f);', '1']]
@*/
#endif
#ifdef H_OBS
LEN_SETTER(setCellIsObstruction, bool, f, cellIsObstruction_)
/*@extract
file = "src/coloquinte.cpp"
head = 'void Circuit::setCellIsObstruction\('
rewrites = [['\bcellIsObstruction_ = f;', 'VEC_COPY(cellIsObstruction_, f);', '1']]
@*/
#endif
#ifdef H_POL
LEN_SETTER(setCellRowPolarity, CellRowPolarity, orient, cellRowPolarity_)
/*@extract
file = "src/coloquinte.cpp"
head = 'void Circuit::setCellRowPolarity\('
rewrites = [['\bcellRowPolarity_ = orient;', 'VEC_COPY(cellRowPolarity_, orient);', '1']]
@*/
#endif
#ifdef H_LEN_X
LEN_SETTER_FREE(setCellX, int, x, cellX_, __CPROVER_old(cellWidth__size))
/*@extract
file = "src/coloquinte.cpp"
head = 'void Circuit::setCellX\('
rewrites = [['\bcellX_ = x;', 'VEC_COPY(cellX_, x);', '1']]
@*/
#endif
#ifdef H_LEN_Y
LEN_SETTER_FREE(setCellY, int, y, cellY_, __CPROVER_old(cellWidth__size))
/*@extract
file = "src/coloquinte.cpp"
head = 'void Circuit::setCellY\('
rewrites = [['\bcellY_ = y;', 'VEC_COPY(cellY_, y);', '1']]
@*/
#endif
#ifdef H_LEN_W
LEN_SETTER_FREE(setCellWidth, int, widths, cellWidth_, __CPROVER_old(cellWidth__size))
/*@extract
file = "src/coloquinte.cpp"
head = 'void Circuit::setCellWidth\('
rewrites = [['\bcellWidth_ = widths;', 'VEC_COPY(cellWidth_, widths);', '1']]
@*/
#endif
#ifdef H_LEN_H
LEN_SETTER_FREE(setCellHeight, int, heights, cellHeight_, __CPROVER_old(cellWidth__size))
/*@extract
file = "src/coloquinte.cpp"
head = 'void Circuit::setCellHeight\('
rewrites = [['\bcellHeight_ = heights;', 'VEC_COPY(cellHeight_, heights);', '1']]
@*/
#endif
#ifdef H_LEN_O
LEN_SETTER_FREE(setCellOrientation, CellOrientation, orient, cellOrientation_, __CPROVER_old(cellWidth__size))
/*@extract
file = "src/coloquinte.cpp"
head = 'void Circuit::setCellOrientation\('
rewrites = [['\bcellOrientation_ = orient;', 'VEC_COPY(cellOrientation_, orient);', '1']]
@*/
#endif
#ifdef H_LEN_NW
LEN_SETTER_FREE(setNetWeights, float, w, netWeights_, (__CPROVER_old(netLimits__size) - 1))
/*@extract
file = "src/coloquinte.cpp"
head = 'void Circuit::setNetWeights\('
rewrites = [['\bnetWeights_ = w;', 'VEC_COPY(netWeights_, w);', '1']]
@*/
#endif

void harness(void) {
  Circuit *c; int *a, *b, *d, *e; float *fw; bool *bf; int na, nb_, nd, ne, nf; float w; Rectangle area; bool b1, b2; Row *r; CellRowPolarity *po; CellOrientation *oo;
#if defined(H_ADDNET)
  Circuit_addNet(c, a, na, b, nb_, d, nd, w);
#elif defined(H_SETNETS)
  Circuit_setNets(c, a, na, b, nb_, d, nd, e, ne, fw, nf);
#elif defined(H_SETROWS)
  Circuit_setRows(c, r, na);
#elif defined(H_SETUPROWS)
  Circuit_setupRows(c, area, na, b1, b2);
#elif defined(H_FIXED)
  Circuit_setCellIsFixed(c, bf, na);
#elif defined(H_OBS)
  Circuit_setCellIsObstruction(c, bf, na);
#elif defined(H_POL)
  Circuit_setCellRowPolarity(c, po, na);
#elif defined(H_LEN_X)
  Circuit_setCellX(c, a, na);
#elif defined(H_LEN_Y)
  Circuit_setCellY(c, a, na);
#elif defined(H_LEN_W)
  Circuit_setCellWidth(c, a, na);
#elif defined(H_LEN_H)
  Circuit_setCellHeight(c, a, na);
#elif defined(H_LEN_O)
  Circuit_setCellOrientation(c, oo, na);
#elif defined(H_LEN_NW)
  Circuit_setNetWeights(c, fw, na);
#endif
  REACH("end");
}
