/*@unit
properties = ["C17", "C06"]
mode = "dfcc"
enforce = "NetModel_addNet5"
timeout = 120
loop_contracts = false
function = "NetModel::addNet(cells, pinOffsets, minPin, maxPin, weight) (net_model.cpp): every non-empty net is handed on with the SAME weight, and the clamped extremes of its fixed pins become one or two pseudo pins on cell -1"
variants = [ {name = "main", enforce = "NetModel_addNet5", defines = []} ]
assumptions = ["the vectors are represented by their length; the pseudo pins pushed onto the copies and the arguments of the inner addNet(cells, offsets, weight) call are recorded by ghost code (the 3-argument addNet: unit c17_net_weights); a call without the weight argument gets the default of the declaration, 1.0f"]
@*/
#include "lower.h"
int verif_exc;
#define NMAX 4096
typedef struct { int nbCells_; } NetModel;
int g_calls, g_nc, g_no; float g_w;
int g_npush_c, g_npush_o, g_fc0, g_fc1; float g_fo0, g_fo1;
#define VERIF_ISFINITE(x) (!isnan(x) && !isinf(x))
#define FC_PUSH(v) do { if (g_npush_c == 0) g_fc0 = (v); else g_fc1 = (v); if (g_npush_c < 4) g_npush_c++; fCells_size++; } while (0)
#define FO_PUSH(v) do { if (g_npush_o == 0) g_fo0 = (v); else g_fo1 = (v); if (g_npush_o < 4) g_npush_o++; fPinOffsets_size++; } while (0)
/* default argument of the declaration `float weight = 1.0f` */
#define ADDNET3(c, o, ...) do { g_nc = c##_size; g_no = o##_size; g_w = (1.0f, ##__VA_ARGS__); if (g_calls < 4) g_calls++; } while (0)
void NetModel_addNet5(NetModel *this, int cells_size, int pinOffsets_size, float minPin, float maxPin, float weight)
__CPROVER_requires(__CPROVER_is_fresh(this, sizeof(*this)) && 0 <= cells_size && cells_size <= NMAX && pinOffsets_size == cells_size && g_calls == 0 && g_npush_c == 0 && g_npush_o == 0 && !isnan(weight) && !isnan(maxPin))
__CPROVER_ensures(cells_size == 0 ==> g_calls == 0)
/* C17: the weight reaches the stored net unchanged, whatever the pins are */
__CPROVER_ensures(cells_size > 0 ==> (g_calls == 1 && g_w == weight && g_nc == g_no))
/* C06: fixed pins are represented by pseudo pins on cell -1 at their (clamped) extremes */
__CPROVER_ensures((cells_size > 0 && VERIF_ISFINITE(minPin)) ==> (g_nc == cells_size + (maxPin != minPin ? 2 : 1) && g_npush_c == g_nc - cells_size && g_npush_o == g_npush_c && g_fc0 == -1 && g_fo0 == minPin && (maxPin != minPin ==> (g_fc1 == -1 && g_fo1 == maxPin))))
__CPROVER_ensures((cells_size > 0 && !VERIF_ISFINITE(minPin)) ==> (g_nc == cells_size && g_npush_c == 0 && g_npush_o == 0))
__CPROVER_assigns(g_calls, g_nc, g_no, g_w, g_npush_c, g_npush_o, g_fc0, g_fc1, g_fo0, g_fo1)
/*@extract
file = "src/place_global/net_model.cpp"
head = 'void NetModel::addNet\(const std::vector<int> &cells,\s*const std::vector<float> &pinOffsets, float minPin,\s*float maxPin, float weight\)'
rewrites = [['std::vector<int> fCells = cells;', 'int fCells_size = cells_size;', '1'], ['std::vector<float> fPinOffsets = pinOffsets;', 'int fPinOffsets_size = pinOffsets_size;', '1'],
            ['fCells\.push_back\(([^;]*)\);', 'FC_PUSH(\1);', '1+'], ['fPinOffsets\.push_back\(([^;]*)\);', 'FO_PUSH(\1);', '1+'],
            ['std::isfinite\(', 'VERIF_ISFINITE(', '*'], ['(?<![\w.>:])addNet\(', 'ADDNET3(', '1+']]
@*/
void harness(void) { NetModel *m; int a, b; float f1, f2, f3; NetModel_addNet5(m, a, b, f1, f2, f3); REACH("end"); }
