/*@unit
properties = ["C07"]
safety = ["C07"]
mode = "dfcc"
enforce = "TransportationProblem_totalDemand"
timeout = 300
function = "TransportationProblem::totalDemand, TransportationProblem::totalCapacity (place_global/transportation.cpp)"
variants = [
  {name = "totalDemand", enforce = "TransportationProblem_totalDemand", defines = ["H_DEMAND"]},
  {name = "totalCapacity", enforce = "TransportationProblem_totalCapacity", defines = ["H_CAPACITY"]},
]
assumptions = ["std::accumulate(first, last, init) is modelled by its standard-specified meaning: an accumulator OF THE TYPE OF init, acc = acc + *it for each element in order (macro STD_ACCUMULATE); the type of the initial value written in the repository is therefore part of what is verified",
               "the mathematical sum is given by a ghost prefix-sum array S (S[0] = 0, S[k+1] = S[k] + v[k], instantiated at the loop index); element magnitudes are bounded by 2^40 and the length by 2^20 so that the 64-bit sum cannot overflow (placement areas are far below that: RANGE in prelude/spec/params.h)"]
@*/
#include "lower.h"
int verif_exc;
#define NMAX (1 << 20)
#define VMAX (1LL << 40)
typedef long long DemandType;
typedef struct { DemandType *demands_; int demands__size; DemandType *capacities_; int capacities__size; } TransportationProblem;
long long *g_S;  /* ghost prefix sums of the accumulated vector */
/* std::accumulate: [accumulate] "initializes the accumulator acc [of type T, the type of init] with init and then modifies it with acc = std::move(acc) + *i" */
#define STD_ACCUMULATE(v, init) ({ __typeof__(init) verif_acc = (init); \
  for (int verif_k = 0; verif_k < this->v##_size; ++verif_k) \
    __CPROVER_assigns(verif_k, verif_acc) \
    __CPROVER_loop_invariant(0 <= verif_k && verif_k <= this->v##_size && verif_acc == g_S[verif_k] && -(long long)verif_k * VMAX <= g_S[verif_k] && g_S[verif_k] <= (long long)verif_k * VMAX) \
    __CPROVER_decreases(this->v##_size - verif_k) \
  { __CPROVER_assume(-VMAX <= this->v[verif_k] && this->v[verif_k] <= VMAX && g_S[verif_k + 1] == g_S[verif_k] + this->v[verif_k]); /* INSTANTIATE prefix sums at the loop index */ \
    verif_acc = verif_acc + this->v[verif_k]; } \
  verif_acc; })

#ifdef H_DEMAND
DemandType TransportationProblem_totalDemand(const TransportationProblem *this)
__CPROVER_requires(__CPROVER_is_fresh(this, sizeof(TransportationProblem)) && 0 <= this->demands__size && this->demands__size <= NMAX)
__CPROVER_requires(__CPROVER_is_fresh(this->demands_, this->demands__size * sizeof(DemandType)) && __CPROVER_is_fresh(g_S, (this->demands__size + 1) * sizeof(long long)) && g_S[0] == 0)
/* C07 (termination of the transportation solver rests on capacity >= demand being established from the TRUE totals): the result is the mathematical sum */
__CPROVER_ensures(__CPROVER_return_value == g_S[this->demands__size])
__CPROVER_assigns()
/*@extract
file = "src/place_global/transportation.cpp"
head = 'DemandType TransportationProblem::totalDemand\(\) const'
rewrites = [['std::accumulate\((\w+)\.begin\(\), \1\.end\(\), ([^;]*)\);', 'STD_ACCUMULATE(\1, \2);', '1']]
@*/
void harness(void) { TransportationProblem *p; TransportationProblem_totalDemand(p); REACH("end"); }
#endif

#ifdef H_CAPACITY
DemandType TransportationProblem_totalCapacity(const TransportationProblem *this)
__CPROVER_requires(__CPROVER_is_fresh(this, sizeof(TransportationProblem)) && 0 <= this->capacities__size && this->capacities__size <= NMAX)
__CPROVER_requires(__CPROVER_is_fresh(this->capacities_, this->capacities__size * sizeof(DemandType)) && __CPROVER_is_fresh(g_S, (this->capacities__size + 1) * sizeof(long long)) && g_S[0] == 0)
__CPROVER_ensures(__CPROVER_return_value == g_S[this->capacities__size])
__CPROVER_assigns()
/*@extract
file = "src/place_global/transportation.cpp"
head = 'DemandType TransportationProblem::totalCapacity\(\) const'
rewrites = [['std::accumulate\((\w+)\.begin\(\), \1\.end\(\), ([^;]*)\);', 'STD_ACCUMULATE(\1, \2);', '1']]
@*/
void harness(void) { TransportationProblem *p; TransportationProblem_totalCapacity(p); REACH("end"); }
#endif
