/*@unit
properties = ["C15"]
mode = "dfcc"
enforce = "Row_freespace"
timeout = 600
function = "Row::freespace, Circuit::computeRows (coloquinte.cpp)"
variants = [
  {name = "freespace", enforce = "Row_freespace", defines = ["H_FREESPACE"]},
  {name = "computeRows", enforce = "Circuit_computeRows", defines = ["H_COMPUTEROWS"], replace = ["Circuit_placement"]},
]
assumptions = ["A(boost-rectangles): boost::polygon::get_rectangles(out, set) returns rectangles that lie inside the inserted rectangle, intersect no inserted hole, and for every column of the inserted rectangle that no hole touches one returned rectangle covers that column over the full height (instantiated at the loop index, a ghost obstacle and a ghost column)",
               "boost::polygon insert/rectangle_data/xl/xh/yl/yh are modelled by ghost records, so that the ARGUMENT ORDER at the call sites is part of what is verified",
               "pairwise disjointness of the returned segments is inherited from A(boost-rectangles) and not restated"]
@*/
#include "lower.h"
int verif_exc;
int verif_vec_touched;
/*@include units/inc/circuit.inc @*/
/*@include units/inc/circuit_off.inc @*/
#undef circuit
#define NMAX 1000
typedef struct { int xl, yl, xh, yh; } RectData;
#define RECTDATA(a, b, c, d) ((RectData){(a), (b), (c), (d)})
#define bpl_xl(r) ((r).xl)
#define bpl_xh(r) ((r).xh)
#define bpl_yl(r) ((r).yl)
#define bpl_yh(r) ((r).yh)

#ifdef H_FREESPACE
int g_o;        /* ghost obstacle index */
int g_x;        /* ghost column */
int g_k;        /* A(boost): index of the returned rectangle that covers column g_x when no hole touches it */
bool g_free;    /* ghost: no obstacle touches column g_x (given by the harness together with its meaning below) */
bool g_covered; /* ghost: a returned segment covers column g_x */
int g_holes;    /* ghost: number of holes inserted so far */
RectData g_base; bool g_base_set;
Rectangle g_obst; /* snapshot of obstacle g_o */
#define TOUCHES_COL(r, x) ((r).minX <= (x) && (x) < (r).maxX && (r).minY < g_rowmaxY && g_rowminY < (r).maxY)
int g_rowminY, g_rowmaxY;
#define POLY_INSERT_BASE(a, b, c, d) do { __CPROVER_assert((a) == this->minX && (b) == this->minY && (c) == this->maxX && (d) == this->maxY, "spec: the region inserted into the polygon set is the row itself, as rectangle_data(xl, yl, xh, yh)"); g_base = RECTDATA(a, b, c, d); g_base_set = 1; } while (0)
#define POLY_INSERT_HOLE(a, b, c, d) do { __CPROVER_assert((a) == r.minX && (b) == r.minY && (c) == r.maxX && (d) == r.maxY, "spec: every obstacle is subtracted as rectangle_data(xl, yl, xh, yh)"); g_holes++; } while (0)
RectData *verif_diff; int verif_diff_size;
enum { BPL_DEFAULT, BPL_VERTICAL, BPL_HORIZONTAL };
#define GET_RECTANGLES(orient) do { __CPROVER_assert((orient) != BPL_HORIZONTAL, "spec C15: the assumed contract of get_rectangles (full-height slabs over obstruction-free columns) holds for vertical slicing only"); __CPROVER_assert(g_base_set && g_holes == obstacles_size, "spec: the difference is taken after the row and ALL obstacles were inserted"); diff = verif_diff; diff_size = verif_diff_size; } while (0)
/* A(boost-rectangles), instantiated at one returned rectangle d */
#define BOOST_RECT_OK(d) ((d).xl >= g_base.xl && (d).xh <= g_base.xh && (d).yl >= g_base.yl && (d).yh <= g_base.yh && (d).xl <= (d).xh && (d).yl <= (d).yh \
   && !((d).xl < g_obst.maxX && g_obst.minX < (d).xh && (d).yl < g_obst.maxY && g_obst.minY < (d).yh))
#define PUSH_ROW(newRow, orient) do { \
   __CPROVER_assert((newRow).minY == this->minY && (newRow).maxY == this->maxY, "spec C15: returned segments are full height"); \
   __CPROVER_assert((orient) == this->orientation, "spec C15: returned segments keep the row's orientation"); \
   __CPROVER_assert((newRow).minX >= this->minX && (newRow).maxX <= this->maxX, "spec C15: returned segments lie inside the row"); \
   __CPROVER_assert(!Rectangle_intersects(newRow, g_obst), "spec C15: returned segments intersect no obstruction"); \
   if ((newRow).minX <= g_x && g_x < (newRow).maxX) g_covered = 1; ret_size++; } while (0)

void Row_freespace(const Row *this, const Rectangle *obstacles, int obstacles_size)
__CPROVER_requires(__CPROVER_is_fresh(this, sizeof(Row)) && 0 <= obstacles_size && obstacles_size <= NMAX && __CPROVER_is_fresh(obstacles, obstacles_size * sizeof(Rectangle)))
__CPROVER_requires(0 <= verif_diff_size && verif_diff_size <= NMAX && __CPROVER_is_fresh(verif_diff, verif_diff_size * sizeof(RectData)))
__CPROVER_requires(MAGV(this->minX) && MAGV(this->maxX) && MAGV(this->minY) && MAGV(this->maxY) && this->minX <= this->maxX && this->minY < this->maxY)
__CPROVER_requires(g_holes == 0 && !g_base_set && !g_covered && g_rowminY == this->minY && g_rowmaxY == this->maxY)
__CPROVER_requires(obstacles_size == 0 || (0 <= g_o && g_o < obstacles_size && g_obst.minX == obstacles[g_o].minX && g_obst.maxX == obstacles[g_o].maxX && g_obst.minY == obstacles[g_o].minY && g_obst.maxY == obstacles[g_o].maxY))
__CPROVER_requires(obstacles_size > 0 || (g_obst.minX == 0 && g_obst.maxX == 0 && g_obst.minY == 0 && g_obst.maxY == 0))
/* A(boost-rectangles), coverage half: if no hole touches column g_x of the row, returned rectangle g_k covers it at full height */
__CPROVER_requires((g_free && this->minX <= g_x && g_x < this->maxX) ==> (0 <= g_k && g_k < verif_diff_size && verif_diff[g_k].xl <= g_x && g_x < verif_diff[g_k].xh && verif_diff[g_k].yl == this->minY && verif_diff[g_k].yh == this->maxY))
/* C15: together the returned segments cover every obstruction-free column of the row */
__CPROVER_ensures((g_free && this->minX <= g_x && g_x < this->maxX) ==> g_covered)
__CPROVER_assigns(g_base, g_base_set, g_holes, g_covered)
/*@extract
file = "src/coloquinte.cpp"
head = 'std::vector<Row> Row::freespace\(const std::vector<Rectangle> &obstacles\) const'
nloops = 2
drop = [['std::vector<Row> ret;', '1'], ['bpl::polygon_90_set_data<int> row_set;', '1']]
rewrites = [['row_set\.insert\(bpl::rectangle_data<int>\(([^;]*?)\),\s*true\);', 'POLY_INSERT_HOLE(\1);', '1+'],
            ['row_set\.insert\(bpl::rectangle_data<int>\(([^;]*?)\)\);', 'POLY_INSERT_BASE(\1);', '1+'],
            ['std::vector<bpl::rectangle_data<int>\s*>\s*diff;\s*bpl::get_rectangles\(diff, row_set\);', 'RectData *diff; int diff_size; int ret_size = 0; GET_RECTANGLES(BPL_DEFAULT);', '*'],
            ['std::vector<bpl::rectangle_data<int>\s*>\s*diff;\s*bpl::get_rectangles\(diff, row_set,\s*bpl::(\w+)\);', 'RectData *diff; int diff_size; int ret_size = 0; GET_RECTANGLES(BPL_\1);', '*'],
            ['GET_RECTANGLES\(BPL_\w+\);', '\g<0>', '1'],
            ['for \(const auto &r : diff\)', 'for (RectData r : diff)', '1'],
            ['Rectangle newRow\(([^;]*)\);', 'Rectangle newRow = Rectangle(\1);', '1'],
            ['bpl::(xl|xh|yl|yh)\(', 'bpl_\1(', '4+'],
            ['\b(\w+)\.(height|width)\(\)', 'Rectangle_\2(\1)', '*'], ['(?<![\w.])(height|width)\(\)', 'Rectangle_\1(*this)', '*'],
            ['ret\.emplace_back\(newRow, orientation\);', 'PUSH_ROW(newRow, orientation);', '1'],
            ['(?<![\w.>])(minX|maxX|minY|maxY|orientation)\b(?!\s*\()', 'this->\1', '4+'],
            ['return ret;', 'return;', '1']]
[[loops]]
ordinal = 1
contract = '''
__CPROVER_assigns(_i_r, g_holes)
__CPROVER_loop_invariant(0 <= _i_r && _i_r <= obstacles_size && g_holes == _i_r)
__CPROVER_decreases(obstacles_size - _i_r)
'''
[[loops]]
ordinal = 2
contract = '''
__CPROVER_assigns(_i_r, ret_size, g_covered)
__CPROVER_loop_invariant(0 <= _i_r && _i_r <= diff_size && 0 <= ret_size && ret_size <= _i_r)
__CPROVER_loop_invariant((g_free && this->minX <= g_x && g_x < this->maxX && g_k < _i_r) ==> g_covered)
__CPROVER_decreases(diff_size - _i_r)
'''
[[ghosts]]
after = 'RectData r = diff\[_i_r\];'
text = '''__CPROVER_assume(BOOST_RECT_OK(r)); /* INSTANTIATE A(boost-rectangles) at the loop index */'''
@*/
#endif

#ifdef H_COMPUTEROWS
int g_cell;  /* ghost cell */
int g_pushed; bool g_cell_pushed, g_other_pushed;
Rectangle Circuit_placement(const Circuit *circuit_p, int cell)
__CPROVER_requires(0 <= cell && cell < circuit_p->cellWidth__size)
__CPROVER_ensures(1)
__CPROVER_assigns();
#define OBST_PUSH(c) do { if ((c) == g_cell) g_cell_pushed = 1; g_pushed++; } while (0)
void Circuit_computeRows(const Circuit *this, const Rectangle *additionalObstacles, int additionalObstacles_size)
__CPROVER_requires(__CPROVER_is_fresh(this, sizeof(Circuit)) && 0 <= this->cellWidth__size && this->cellWidth__size <= NMAX)
__CPROVER_requires(CFRESH(this, cellIsFixed_, this->cellWidth__size, bool) && CFRESH(this, cellIsObstruction_, this->cellWidth__size, bool) && this->rows__size >= 0 && this->rows__size <= NMAX)
__CPROVER_requires(0 <= g_cell && g_cell < this->cellWidth__size && !g_cell_pushed && g_pushed == 0)
/* C15: the obstacles are the extra ones plus exactly the cells that are fixed AND flagged as obstructions */
__CPROVER_ensures(g_cell_pushed == (this->cellIsFixed_[g_cell] && this->cellIsObstruction_[g_cell]))
__CPROVER_assigns(g_cell_pushed, g_pushed)
/*@extract
file = "src/coloquinte.cpp"
head = 'std::vector<Row> Circuit::computeRows\('
slice_from = 'for \(int i = 0; i < nbCells\(\); \+\+i\) \{'
slice_to = 'std::vector<Row> ret;'
nloops = 1
rewrites = [['obstacles\.emplace_back\(placement\(i\)\);', 'Circuit_placement(this, i); OBST_PUSH(i);', '1'], ['\bnbCells\(\)', 'Circuit_nbCells(this)', '1+'], ['\b(isFixed|isObstruction)\(', 'Circuit_\1(this, ', '*']]
[[loops]]
ordinal = 1
contract = '''
__CPROVER_assigns(i, g_cell_pushed, g_pushed)
__CPROVER_loop_invariant(0 <= i && i <= this->cellWidth__size && 0 <= g_pushed && g_pushed <= i)
__CPROVER_loop_invariant(g_cell < i ==> (g_cell_pushed == (this->cellIsFixed_[g_cell] && this->cellIsObstruction_[g_cell])))
__CPROVER_loop_invariant(g_cell >= i ==> !g_cell_pushed)
__CPROVER_decreases(this->cellWidth__size - i)
'''
@*/
#endif

void harness(void) {
  Row *r; Rectangle *obs; int k; Circuit *c;
#if defined(H_FREESPACE)
  Row_freespace(r, obs, k);
#else
  Circuit_computeRows(c, obs, k);
#endif
  REACH("end");
}
