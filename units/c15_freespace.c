/*@unit
properties = ["C15", "C01", "C02"]
mode = "dfcc"
enforce = "Row_freespace"
timeout = 600
function = "Row::freespace, Circuit::computeRows (coloquinte.cpp)"
variants = [
  {name = "freespace", enforce = "Row_freespace", defines = ["H_FREESPACE"]},
  {name = "computeRows", enforce = "Circuit_computeRows", defines = ["H_COMPUTEROWS"], replace = ["Circuit_placement"]},
]
assumptions = ["A(boost-rectangles): boost::polygon::get_rectangles(out, set) returns rectangles that lie inside the inserted rectangle, have no positive-area overlap with a subtracted hole, and for every column of the inserted rectangle that no subtracted hole touches one returned rectangle covers that column over the full height (instantiated at the loop index, at the hole subtracted for a ghost obstacle and at a ghost column); a flat or empty hole removes nothing",
               "what the code must establish itself: every obstacle that overlaps the row is covered by a subtracted hole (or provably does not overlap), and a hole touches only columns its obstacle touches",
               "boost::polygon insert/rectangle_data/xl/xh/yl/yh are modelled by ghost records, so that the ARGUMENT ORDER at the call sites is part of what is verified",
               "pairwise disjointness of the returned segments is inherited from A(boost-rectangles) and not restated"]
@*/
#include "lower.h"
int verif_exc;
int verif_vec_touched;
/*@include units/inc/circuit.inc @*/
/*@include units/inc/circuit_off.inc @*/
#undef circuit
#define NMAX 1000
typedef struct { int xl, yl, xh, yh; } RectData;
#define RECTDATA(a, b, c, d) ((RectData){(a), (b), (c), (d)})
#define bpl_xl(r) ((r).xl)
#define bpl_xh(r) ((r).xh)
#define bpl_yl(r) ((r).yl)
#define bpl_yh(r) ((r).yh)

#ifdef H_FREESPACE
int g_o;        /* ghost obstacle index */
int g_x;        /* ghost column [g_x, g_x + 1) */
int g_k;        /* A(boost): index of the returned rectangle that covers column g_x when no subtracted hole touches it */
bool g_free;    /* ghost: no obstacle touches column g_x inside the row (meaning instantiated at every obstacle below) */
bool g_covered; /* ghost: a returned segment covers column g_x */
int g_holes;    /* ghost: number of holes subtracted so far */
bool g_hole_touched;  /* ghost: some subtracted hole touches column g_x inside the row */
bool g_hole_set; RectData g_hole;   /* ghost: the hole subtracted for obstacle g_o, if any */
RectData g_base; bool g_base_set;
Rectangle g_obst; /* snapshot of obstacle g_o */
int g_rowminX, g_rowmaxX, g_rowminY, g_rowmaxY;
/* positive-area overlap (a flat or empty rectangle overlaps nothing; Rectangle::intersects is weaker) */
#define OVERLAP(aminX, aminY, amaxX, amaxY, o) (std_max(aminX, (o).minX) < std_min(amaxX, (o).maxX) && std_max(aminY, (o).minY) < std_min(amaxY, (o).maxY))
#define ROW_OVERLAPS(o) OVERLAP(g_rowminX, g_rowminY, g_rowmaxX, g_rowmaxY, o)
/* a rectangle (xl, yl, xh, yh) touches column x of the row: it has positive-area overlap with [x, x+1) x [rowminY, rowmaxY) */
#define TOUCHES_COL_R(xl, yl, xh, yh, x) ((xl) <= (x) && (x) < (xh) && std_max(yl, g_rowminY) < std_min(yh, g_rowmaxY))
#define TOUCHES_COL(r, x) TOUCHES_COL_R((r).minX, (r).minY, (r).maxX, (r).maxY, x)
/* the hole (a, b, c, d) removes all of obstacle o that lies inside the row */
#define HOLE_COVERS(h, o) ((h).xl <= std_max((o).minX, g_rowminX) && (h).xh >= std_min((o).maxX, g_rowmaxX) && (h).yl <= std_max((o).minY, g_rowminY) && (h).yh >= std_min((o).maxY, g_rowmaxY))
#define OBST_HANDLED ((g_hole_set && HOLE_COVERS(g_hole, g_obst)) || !ROW_OVERLAPS(g_obst))
#define POLY_INSERT_BASE(a, b, c, d) do { __CPROVER_assert((a) == this->minX && (b) == this->minY && (c) == this->maxX && (d) == this->maxY, "spec: the region inserted into the polygon set is the row itself, as rectangle_data(xl, yl, xh, yh)"); g_base = RECTDATA(a, b, c, d); g_base_set = 1; } while (0)
#define POLY_INSERT_HOLE(a, b, c, d) do { \
   __CPROVER_assert(!TOUCHES_COL_R(a, b, c, d, g_x) || TOUCHES_COL(r, g_x), "spec C15: a subtracted hole removes only columns that its obstacle touches (no obstruction-free column is lost)"); \
   if (TOUCHES_COL_R(a, b, c, d, g_x)) g_hole_touched = 1; \
   if (_i_r == g_o) { g_hole = RECTDATA(a, b, c, d); g_hole_set = 1; } \
   g_holes++; } while (0)
RectData *verif_diff; int verif_diff_size;
enum { BPL_DEFAULT, BPL_VERTICAL, BPL_HORIZONTAL };
#define GET_RECTANGLES(orient) do { __CPROVER_assert((orient) != BPL_HORIZONTAL, "spec C15: the assumed contract of get_rectangles (full-height slabs over hole-free columns) holds for vertical slicing only"); __CPROVER_assert(g_base_set, "spec: the difference is taken after the row was inserted"); \
   __CPROVER_assume((!g_hole_touched && this->minX <= g_x && g_x < this->maxX) ==> (0 <= g_k && g_k < verif_diff_size && verif_diff[g_k].xl <= g_x && g_x < verif_diff[g_k].xh && verif_diff[g_k].yl == this->minY && verif_diff[g_k].yh == this->maxY)); /* A(boost-rectangles), coverage half */ \
   diff = verif_diff; diff_size = verif_diff_size; } while (0)
/* A(boost-rectangles), instantiated at one returned rectangle d: inside the base, proper, and without positive-area overlap with the hole subtracted for obstacle g_o */
#define RD_OVERLAP(d, h) (std_max((d).xl, (h).xl) < std_min((d).xh, (h).xh) && std_max((d).yl, (h).yl) < std_min((d).yh, (h).yh))
#define BOOST_RECT_OK(d) ((d).xl >= g_base.xl && (d).xh <= g_base.xh && (d).yl >= g_base.yl && (d).yh <= g_base.yh && (d).xl <= (d).xh && (d).yl <= (d).yh \
   && (!g_hole_set || !RD_OVERLAP(d, g_hole)))
#define PUSH_ROW(newRow, orient) do { \
   __CPROVER_assert((newRow).minY == this->minY && (newRow).maxY == this->maxY, "spec C15: returned segments are full height"); \
   __CPROVER_assert((orient) == this->orientation, "spec C15: returned segments keep the row's orientation"); \
   __CPROVER_assert((newRow).minX >= this->minX && (newRow).maxX <= this->maxX, "spec C15: returned segments lie inside the row"); \
   __CPROVER_assert(!OVERLAP((newRow).minX, (newRow).minY, (newRow).maxX, (newRow).maxY, g_obst), "spec C15: returned segments overlap no obstruction"); \
   if ((newRow).minX <= g_x && g_x < (newRow).maxX) g_covered = 1; ret_size++; } while (0)

void Row_freespace(const Row *this, const Rectangle *obstacles, int obstacles_size)
__CPROVER_requires(__CPROVER_is_fresh(this, sizeof(Row)) && 0 <= obstacles_size && obstacles_size <= NMAX && __CPROVER_is_fresh(obstacles, obstacles_size * sizeof(Rectangle)))
__CPROVER_requires(0 <= verif_diff_size && verif_diff_size <= NMAX && __CPROVER_is_fresh(verif_diff, verif_diff_size * sizeof(RectData)))
__CPROVER_requires(MAGV(this->minX) && MAGV(this->maxX) && MAGV(this->minY) && MAGV(this->maxY) && this->minX <= this->maxX && this->minY < this->maxY)
__CPROVER_requires(g_holes == 0 && !g_base_set && !g_covered && !g_hole_touched && !g_hole_set && g_rowminX == this->minX && g_rowmaxX == this->maxX && g_rowminY == this->minY && g_rowmaxY == this->maxY)
__CPROVER_requires(obstacles_size == 0 || (0 <= g_o && g_o < obstacles_size && g_obst.minX == obstacles[g_o].minX && g_obst.maxX == obstacles[g_o].maxX && g_obst.minY == obstacles[g_o].minY && g_obst.maxY == obstacles[g_o].maxY))
__CPROVER_requires(obstacles_size > 0 || (g_obst.minX == 0 && g_obst.maxX == 0 && g_obst.minY == 0 && g_obst.maxY == 0))
/* C15: together the returned segments cover every obstruction-free column of the row */
__CPROVER_ensures((g_free && this->minX <= g_x && g_x < this->maxX) ==> g_covered)
__CPROVER_assigns(g_base, g_base_set, g_holes, g_covered, g_hole_touched, g_hole_set, g_hole)
/*@extract
file = "src/coloquinte.cpp"
head = 'std::vector<Row> Row::freespace\(const std::vector<Rectangle> &obstacles\) const'
nloops = 2
drop = [['std::vector<Row> ret;', '1'], ['bpl::polygon_90_set_data<int> row_set;', '1']]
rewrites = [['row_set\.insert\(bpl::rectangle_data<int>\(([^;]*?)\),\s*true\);', 'POLY_INSERT_HOLE(\1);', '1+'],
            ['row_set\.insert\(bpl::rectangle_data<int>\(([^;]*?)\)\);', 'POLY_INSERT_BASE(\1);', '1+'],
            ['std::vector<bpl::rectangle_data<int>\s*>\s*diff;\s*bpl::get_rectangles\(diff, row_set\);', 'RectData *diff; int diff_size; int ret_size = 0; GET_RECTANGLES(BPL_DEFAULT);', '*'],
            ['std::vector<bpl::rectangle_data<int>\s*>\s*diff;\s*bpl::get_rectangles\(diff, row_set,\s*bpl::(\w+)\);', 'RectData *diff; int diff_size; int ret_size = 0; GET_RECTANGLES(BPL_\1);', '*'],
            ['GET_RECTANGLES\(BPL_\w+\);', '\g<0>', '1'],
            ['for \(const auto &r : diff\)', 'for (RectData r : diff)', '1'],
            ['Rectangle newRow\(([^;]*)\);', 'Rectangle newRow = Rectangle(\1);', '1'],
            ['bpl::(xl|xh|yl|yh)\(', 'bpl_\1(', '4+'],
            ['\b(\w+)\.(height|width)\(\)', 'Rectangle_\2(\1)', '*'], ['(?<![\w.])(height|width)\(\)', 'Rectangle_\1(*this)', '*'],
            ['(?<![\w.>])(intersects|contains)\(', 'Rectangle_\1(*this, ', '*'], ['\b(\w+)\.(intersects|contains)\(', 'Rectangle_\2(\1, ', '*'],
            ['ret\.emplace_back\(newRow, orientation\);', 'PUSH_ROW(newRow, orientation);', '1'],
            ['(?<![\w.>])(minX|maxX|minY|maxY|orientation)\b(?!\s*\()', 'this->\1', '4+'],
            ['return ret;', 'return;', '1']]
[[loops]]
ordinal = 1
contract = """
__CPROVER_assigns(_i_r, g_holes, g_hole_touched, g_hole_set, g_hole)
__CPROVER_loop_invariant(0 <= _i_r && _i_r <= obstacles_size && 0 <= g_holes && g_holes <= _i_r && (g_free ==> !g_hole_touched) && (g_o >= _i_r ==> !g_hole_set) && ((obstacles_size > 0 && g_o < _i_r) ==> OBST_HANDLED))
__CPROVER_decreases(obstacles_size - _i_r)
"""
[[loops]]
ordinal = 2
contract = """
__CPROVER_assigns(_i_r, ret_size, g_covered)
__CPROVER_loop_invariant(0 <= _i_r && _i_r <= diff_size && 0 <= ret_size && ret_size <= _i_r)
__CPROVER_loop_invariant((g_free && this->minX <= g_x && g_x < this->maxX && g_k < _i_r) ==> g_covered)
__CPROVER_decreases(diff_size - _i_r)
"""
[[ghosts]]
after = 'Rectangle r = obstacles\[_i_r\];'
text = """__CPROVER_assume(MAGV(r.minX) && MAGV(r.maxX) && MAGV(r.minY) && MAGV(r.maxY) && (g_free ==> !TOUCHES_COL(r, g_x))); /* INSTANTIATE the meaning of g_free (no obstacle touches column g_x) and MAG at the loop index */"""
[[ghosts]]
after = 'RectData r = diff\[_i_r\];'
text = """__CPROVER_assume(BOOST_RECT_OK(r)); /* INSTANTIATE A(boost-rectangles) at the loop index */"""
@*/
#endif

#ifdef H_COMPUTEROWS
int g_cell;  /* ghost cell */
int g_pushed; bool g_cell_pushed, g_other_pushed;
Rectangle Circuit_placement(const Circuit *circuit_p, int cell)
__CPROVER_requires(0 <= cell && cell < circuit_p->cellWidth__size)
__CPROVER_ensures(1)
__CPROVER_assigns();
#define OBST_PUSH(c) do { if ((c) == g_cell) g_cell_pushed = 1; g_pushed++; } while (0)
void Circuit_computeRows(const Circuit *this, const Rectangle *additionalObstacles, int additionalObstacles_size)
__CPROVER_requires(__CPROVER_is_fresh(this, sizeof(Circuit)) && 0 <= this->cellWidth__size && this->cellWidth__size <= NMAX)
__CPROVER_requires(CFRESH(this, cellIsFixed_, this->cellWidth__size, bool) && CFRESH(this, cellIsObstruction_, this->cellWidth__size, bool) && this->rows__size >= 0 && this->rows__size <= NMAX)
__CPROVER_requires(0 <= g_cell && g_cell < this->cellWidth__size && !g_cell_pushed && g_pushed == 0)
/* C15: the obstacles are the extra ones plus exactly the cells that are fixed AND flagged as obstructions */
__CPROVER_ensures(g_cell_pushed == (this->cellIsFixed_[g_cell] && this->cellIsObstruction_[g_cell]))
__CPROVER_assigns(g_cell_pushed, g_pushed)
/*@extract
file = "src/coloquinte.cpp"
head = 'std::vector<Row> Circuit::computeRows\('
slice_from = 'for \(int i = 0; i < nbCells\(\); \+\+i\) \{'
slice_to = 'std::vector<Row> ret;'
nloops = 1
rewrites = [['obstacles\.emplace_back\(placement\(i\)\);', 'Circuit_placement(this, i); OBST_PUSH(i);', '1'], ['\bnbCells\(\)', 'Circuit_nbCells(this)', '1+'], ['\b(isFixed|isObstruction)\(', 'Circuit_\1(this, ', '*']]
[[loops]]
ordinal = 1
contract = '''
__CPROVER_assigns(i, g_cell_pushed, g_pushed)
__CPROVER_loop_invariant(0 <= i && i <= this->cellWidth__size && 0 <= g_pushed && g_pushed <= i)
__CPROVER_loop_invariant(g_cell < i ==> (g_cell_pushed == (this->cellIsFixed_[g_cell] && this->cellIsObstruction_[g_cell])))
__CPROVER_loop_invariant(g_cell >= i ==> !g_cell_pushed)
__CPROVER_decreases(this->cellWidth__size - i)
'''
@*/
#endif

void harness(void) {
  Row *r; Rectangle *obs; int k; Circuit *c;
#if defined(H_FREESPACE)
  Row_freespace(r, obs, k);
#else
  Circuit_computeRows(c, obs, k);
#endif
  REACH("end");
}
