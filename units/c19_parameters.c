/*@unit
properties = ["C19"]
safety = ["C07", "C19"]   # C19: "refused ... without undefined behaviour"
mode = "dfcc"
enforce = "ColoquinteParameters_ctor"
loop_contracts = false
timeout = 300
function = "ColoquinteParameters / GlobalPlacerParameters / RoughLegalization / Penalty / ContinuousModel / Legalization / DetailedPlacer Parameters constructors and check() (parameters.cpp)"
variants = [
  {name = "ctor", enforce = "ColoquinteParameters_ctor", defines = ["H_CTOR"]},
  {name = "check_penalty", enforce = "PenaltyParameters_check", defines = ["H_CK_PEN"]},
  {name = "check_continuous", enforce = "ContinuousModelParameters_check", defines = ["H_CK_CONT"]},
  {name = "check_rough", enforce = "RoughLegalizationParameters_check", defines = ["H_CK_ROUGH"]},
  {name = "check_global", enforce = "GlobalPlacerParameters_check", defines = ["H_CK_GLOBAL"]},
  {name = "check_legalization", enforce = "LegalizationParameters_check", defines = ["H_CK_LEG"]},
  {name = "check_detailed", enforce = "DetailedPlacerParameters_check", defines = ["H_CK_DET"]},
  {name = "check_all", enforce = "ColoquinteParameters_check", defines = ["H_CK_ALL"], replace = ["GlobalPlacerParameters_check", "LegalizationParameters_check", "DetailedPlacerParameters_check"]},
]
assumptions = ["A(libm): std::exp / std::log are replaced by an enclosure (log: sign relative to 1, |log x| <= 1000; exp: positive, >= 1 iff argument >= 0, <= 1e9); std::round is CBMC's model of round()"]
[replay]
template = "replay/c19_effort.cpp"
inputs = ["effort", "seed"]
sources = ["parameters.cpp"]
@*/
#include "lower.h"
int verif_exc;
/*@enums src/coloquinte.hpp @*/
/*@struct
file = "src/coloquinte.hpp"
class = "PenaltyParameters"
@*/
/*@struct
file = "src/coloquinte.hpp"
class = "ContinuousModelParameters"
known = ["NetModelOption"]
@*/
/*@struct
file = "src/coloquinte.hpp"
class = "RoughLegalizationParameters"
known = ["LegalizationModel"]
@*/
/*@struct
file = "src/coloquinte.hpp"
class = "GlobalPlacerParameters"
known = ["PenaltyParameters", "ContinuousModelParameters", "RoughLegalizationParameters"]
@*/
/*@struct
file = "src/coloquinte.hpp"
class = "LegalizationParameters"
known = ["LegalizationModel"]
@*/
/*@struct
file = "src/coloquinte.hpp"
class = "DetailedPlacerParameters"
@*/
/*@struct
file = "src/coloquinte.hpp"
class = "ColoquinteParameters"
known = ["GlobalPlacerParameters", "LegalizationParameters", "DetailedPlacerParameters"]
@*/
#include "spec/params.h"

/* A(libm) */
double nondet_double(void);
static double std_log(double x) { double r = nondet_double(); __CPROVER_assume((x >= 1.0 ? r >= 0.0 : r < 0.0) && r <= 1.0e3 && r >= -1.0e3); return r; }
static double std_exp(double x) { double r = nondet_double(); __CPROVER_assume(r > 0.0 && (x >= 0.0 ? r >= 1.0 : r < 1.0) && r <= 1.0e9); return r; }

#undef VERIF_DUMMY
#define VERIF_DUMMY 0
/*@extract
file = "src/parameters.cpp"
head = 'int checkEffort\(int effort\)'
prefix = "int checkEffort(int effort)"
optional = true
@*/
double interpolateEffort5(double minVal, double maxVal, int effort, int minEffort, int maxEffort)
/*@extract
file = "src/parameters.cpp"
head = 'double interpolateEffort\(double minVal, double maxVal, int effort,'
@*/
#define IE_PICK(a, b, c, d, e, NAME, ...) NAME
#define interpolateEffort3(a, b, c) interpolateEffort5(a, b, c, 1, 9)
#define interpolateEffort(...) IE_PICK(__VA_ARGS__, interpolateEffort5, x, interpolateEffort3)(__VA_ARGS__)
double interpolateLogEffort5(double minVal, double maxVal, int effort, int minEffort, int maxEffort)
/*@extract
file = "src/parameters.cpp"
head = 'double interpolateLogEffort\(double minVal, double maxVal, int effort,'
@*/
#define interpolateLogEffort(a, b, c) interpolateLogEffort5(a, b, c, 1, 9)
#undef VERIF_DUMMY
#define VERIF_DUMMY

/* ------------------------------------------------------------------ check() functions:
 * normal return <=> the documented range (spec/params.h) */
void PenaltyParameters_check(const PenaltyParameters *this)
__CPROVER_requires(__CPROVER_is_fresh(this, sizeof(*this)) && verif_exc == 0)
__CPROVER_ensures((verif_exc == 0) == RANGE_Penalty(this))
__CPROVER_assigns(verif_exc)
/*@extract
file = "src/parameters.cpp"
head = 'void PenaltyParameters::check\(\) const'
this_members = {file = "src/coloquinte.hpp", class = "PenaltyParameters"}
@*/
void ContinuousModelParameters_check(const ContinuousModelParameters *this)
__CPROVER_requires(__CPROVER_is_fresh(this, sizeof(*this)) && verif_exc == 0)
__CPROVER_ensures((verif_exc == 0) == RANGE_Continuous(this))
__CPROVER_assigns(verif_exc)
/*@extract
file = "src/parameters.cpp"
head = 'void ContinuousModelParameters::check\(\) const'
this_members = {file = "src/coloquinte.hpp", class = "ContinuousModelParameters"}
@*/
void RoughLegalizationParameters_check(const RoughLegalizationParameters *this)
__CPROVER_requires(__CPROVER_is_fresh(this, sizeof(*this)) && verif_exc == 0)
__CPROVER_ensures((verif_exc == 0) == RANGE_Rough(this))
__CPROVER_assigns(verif_exc)
/*@extract
file = "src/parameters.cpp"
head = 'void RoughLegalizationParameters::check\(\) const'
this_members = {file = "src/coloquinte.hpp", class = "RoughLegalizationParameters"}
@*/
void GlobalPlacerParameters_check(const GlobalPlacerParameters *this)
#if defined(H_CK_ALL)
__CPROVER_requires(verif_exc == 0)
__CPROVER_ensures((verif_exc == 0) == RANGE_Global(this))
__CPROVER_assigns(verif_exc);
#else
#if defined(H_CK_GLOBAL)
__CPROVER_requires(__CPROVER_is_fresh(this, sizeof(*this)) && verif_exc == 0)
__CPROVER_ensures((verif_exc == 0) == RANGE_Global(this))
__CPROVER_assigns(verif_exc)
#endif
/*@extract
file = "src/parameters.cpp"
head = 'void GlobalPlacerParameters::check\(\) const'
this_members = {file = "src/coloquinte.hpp", class = "GlobalPlacerParameters"}
rewrites = [['(?:this->)?roughLegalization\.check\(\);', 'RoughLegalizationParameters_check(&this->roughLegalization); VERIF_PROPAGATE;', '1+'],
            ['(?:this->)?continuousModel\.check\(\);', 'ContinuousModelParameters_check(&this->continuousModel); VERIF_PROPAGATE;', '1+'],
            ['(?:this->)?penalty\.check\(\);', 'PenaltyParameters_check(&this->penalty); VERIF_PROPAGATE;', '1+']]
@*/
#endif
void LegalizationParameters_check(const LegalizationParameters *this)
#if defined(H_CK_ALL)
__CPROVER_requires(verif_exc == 0)
__CPROVER_ensures((verif_exc == 0) == RANGE_Legalization(this))
__CPROVER_assigns(verif_exc);
#else
#if defined(H_CK_LEG)
__CPROVER_requires(__CPROVER_is_fresh(this, sizeof(*this)) && verif_exc == 0)
__CPROVER_ensures((verif_exc == 0) == RANGE_Legalization(this))
__CPROVER_assigns(verif_exc)
#endif
/*@extract
file = "src/parameters.cpp"
head = 'void LegalizationParameters::check\(\) const'
this_members = {file = "src/coloquinte.hpp", class = "LegalizationParameters"}
@*/
#endif
void DetailedPlacerParameters_check(const DetailedPlacerParameters *this)
#if defined(H_CK_ALL)
__CPROVER_requires(verif_exc == 0)
__CPROVER_ensures((verif_exc == 0) == RANGE_Detailed(this))
__CPROVER_assigns(verif_exc);
#else
#if defined(H_CK_DET)
__CPROVER_requires(__CPROVER_is_fresh(this, sizeof(*this)) && verif_exc == 0)
__CPROVER_ensures((verif_exc == 0) == RANGE_Detailed(this))
__CPROVER_assigns(verif_exc)
#endif
/*@extract
file = "src/parameters.cpp"
head = 'void DetailedPlacerParameters::check\(\) const'
this_members = {file = "src/coloquinte.hpp", class = "DetailedPlacerParameters"}
@*/
#endif
void ColoquinteParameters_check(const ColoquinteParameters *this)
#if defined(H_CK_ALL)
__CPROVER_requires(__CPROVER_is_fresh(this, sizeof(*this)) && verif_exc == 0)
/* the whole set is accepted iff every part is in its documented range; a rejected set is only read */
__CPROVER_ensures((verif_exc == 0) == RANGE_Coloquinte(this))
__CPROVER_assigns(verif_exc)
#endif
/*@extract
file = "src/parameters.cpp"
head = 'void ColoquinteParameters::check\(\) const'
rewrites = [['\bglobal\.check\(\);', 'GlobalPlacerParameters_check(&this->global); VERIF_PROPAGATE;', '1+'],
            ['\blegalization\.check\(\);', 'LegalizationParameters_check(&this->legalization); VERIF_PROPAGATE;', '1+'],
            ['\bdetailed\.check\(\);', 'DetailedPlacerParameters_check(&this->detailed); VERIF_PROPAGATE;', '1+']]
@*/

/* ------------------------------------------------------------------ constructors */
#ifdef H_CTOR
void RoughLegalizationParameters_ctor(RoughLegalizationParameters *this, int effort)
/*@extract
file = "src/parameters.cpp"
head = 'RoughLegalizationParameters::RoughLegalizationParameters\(int effort\)'
this_members = {file = "src/coloquinte.hpp", class = "RoughLegalizationParameters"}
rewrites = [['\bcheckEffort\(effort\);', 'checkEffort(effort); VERIF_PROPAGATE;', '*']]
@*/
void PenaltyParameters_ctor(PenaltyParameters *this, int effort)
/*@extract
file = "src/parameters.cpp"
head = 'PenaltyParameters::PenaltyParameters\(int effort\)'
this_members = {file = "src/coloquinte.hpp", class = "PenaltyParameters"}
rewrites = [['\bcheckEffort\(effort\);', 'checkEffort(effort); VERIF_PROPAGATE;', '*']]
@*/
void ContinuousModelParameters_ctor(ContinuousModelParameters *this, int effort)
/*@extract
file = "src/parameters.cpp"
head = 'ContinuousModelParameters::ContinuousModelParameters\('
this_members = {file = "src/coloquinte.hpp", class = "ContinuousModelParameters"}
rewrites = [['\bcheckEffort\(effort\);', 'checkEffort(effort); VERIF_PROPAGATE;', '*']]
@*/
void GlobalPlacerParameters_ctor(GlobalPlacerParameters *this, int effort)
/*@extract
file = "src/parameters.cpp"
head = 'GlobalPlacerParameters::GlobalPlacerParameters\(int effort\)'
this_members = {file = "src/coloquinte.hpp", class = "GlobalPlacerParameters"}
init_order = {file = "src/coloquinte.hpp", class = "GlobalPlacerParameters"}
rewrites = [['\bcheckEffort\(effort\);', 'checkEffort(effort); VERIF_PROPAGATE;', '*'], ['\bcheck\(\);', 'GlobalPlacerParameters_check(this); VERIF_PROPAGATE;', '*']]
[init_list]
continuousModel = "ContinuousModelParameters_ctor(&this->continuousModel, {args}); VERIF_PROPAGATE;"
roughLegalization = "RoughLegalizationParameters_ctor(&this->roughLegalization, {args}); VERIF_PROPAGATE;"
penalty = "PenaltyParameters_ctor(&this->penalty, {args}); VERIF_PROPAGATE;"
@*/
void LegalizationParameters_ctor(LegalizationParameters *this, int effort)
/*@extract
file = "src/parameters.cpp"
head = 'LegalizationParameters::LegalizationParameters\('
this_members = {file = "src/coloquinte.hpp", class = "LegalizationParameters"}
rewrites = [['\bcheckEffort\(effort\);', 'checkEffort(effort); VERIF_PROPAGATE;', '*'], ['\bcheck\(\);', 'LegalizationParameters_check(this); VERIF_PROPAGATE;', '*']]
@*/
void DetailedPlacerParameters_ctor(DetailedPlacerParameters *this, int effort)
/*@extract
file = "src/parameters.cpp"
head = 'DetailedPlacerParameters::DetailedPlacerParameters\(int effort\)'
this_members = {file = "src/coloquinte.hpp", class = "DetailedPlacerParameters"}
rewrites = [['\bcheckEffort\(effort\);', 'checkEffort(effort); VERIF_PROPAGATE;', '*'], ['\bcheck\(\);', 'DetailedPlacerParameters_check(this); VERIF_PROPAGATE;', '*']]
@*/
void ColoquinteParameters_ctor(ColoquinteParameters *this, int effort, int seed)
/* for EVERY int effort */
__CPROVER_requires(__CPROVER_is_fresh(this, sizeof(*this)) && verif_exc == 0)
/* C19: an effort outside 1..9 is refused with a catchable error (and without undefined behaviour: the safety obligations of this unit) */
__CPROVER_ensures((effort < 1 || effort > 9) ==> verif_exc)
/* every effort from 1 to 9 is accepted and yields parameters inside the documented ranges, i.e. that pass check() */
__CPROVER_ensures((effort >= 1 && effort <= 9) ==> (!verif_exc && RANGE_Coloquinte(this) && this->seed == seed))
__CPROVER_assigns(verif_exc, __CPROVER_object_whole(this))
/*@extract
file = "src/parameters.cpp"
head = 'ColoquinteParameters::ColoquinteParameters\(int effort, int seed\)'
init_order = {file = "src/coloquinte.hpp", class = "ColoquinteParameters"}
[init_list]
global = "int verif_e0 = {args}; VERIF_PROPAGATE; GlobalPlacerParameters_ctor(&this->global, verif_e0); VERIF_PROPAGATE;"
legalization = "int verif_e1 = {args}; VERIF_PROPAGATE; LegalizationParameters_ctor(&this->legalization, verif_e1); VERIF_PROPAGATE;"
detailed = "int verif_e2 = {args}; VERIF_PROPAGATE; DetailedPlacerParameters_ctor(&this->detailed, verif_e2); VERIF_PROPAGATE;"
seed = "this->seed = {args};"
@*/
#endif

void harness(void) {
  int effort, seed;
#if defined(H_CTOR)
  ColoquinteParameters *p; ColoquinteParameters_ctor(p, effort, seed);
#elif defined(H_CK_PEN)
  PenaltyParameters *p; PenaltyParameters_check(p);
#elif defined(H_CK_CONT)
  ContinuousModelParameters *p; ContinuousModelParameters_check(p);
#elif defined(H_CK_ROUGH)
  RoughLegalizationParameters *p; RoughLegalizationParameters_check(p);
#elif defined(H_CK_GLOBAL)
  GlobalPlacerParameters *p; GlobalPlacerParameters_check(p);
#elif defined(H_CK_LEG)
  LegalizationParameters *p; LegalizationParameters_check(p);
#elif defined(H_CK_DET)
  DetailedPlacerParameters *p; DetailedPlacerParameters_check(p);
#else
  ColoquinteParameters *p; ColoquinteParameters_check(p);
#endif
  REACH("end");
}
