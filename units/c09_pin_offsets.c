/*@unit
properties = ["C09"]
mode = "dfcc"
enforce = "Circuit_pinXOffset"
loop_contracts = false
timeout = 300
function = "Circuit::placedWidth, placedHeight, pinXOffset, pinYOffset (coloquinte.cpp)"
variants = [
  {name = "pinx", enforce = "Circuit_pinXOffset", defines = ["H_PINX"]},
  {name = "piny", enforce = "Circuit_pinYOffset", defines = ["H_PINY"]},
  {name = "pw", enforce = "Circuit_placedWidth", defines = ["H_PW"]},
  {name = "ph", enforce = "Circuit_placedHeight", defines = ["H_PH"]},
]
[replay]
template = "replay/c09_pin_offsets.cpp"
inputs = ["g_w", "g_h", "g_px", "g_py", "g_o"]
@*/
#include "lower.h"
int verif_exc;
/*@include units/inc/circuit.inc @*/
#include "spec/orient.h"

/* ghost inputs named in the contracts so that a counterexample is an API-level input */
int g_w, g_h, g_px, g_py; CellOrientation g_o;
#define NCMAX 1000
#define NPMAX 4000

bool isTurn(CellOrientation orient)
__CPROVER_ensures(__CPROVER_return_value == spec_is_turn(orient))
__CPROVER_assigns()
/*@extract
file = "src/parameters.cpp"
head = 'bool isTurn\(CellOrientation orient\)'
@*/

#define SHAPE_AND_CELL \
  __CPROVER_requires(nc >= 1 && nc <= NCMAX && nn >= 0 && nn <= NCMAX && np >= 0 && np <= NPMAX) \
  __CPROVER_requires(FRESH_THIS(Circuit) && FRESH_ARR(cellWidth_, nc, int) && FRESH_ARR(cellHeight_, nc, int) && FRESH_ARR(cellOrientation_, nc, CellOrientation))
#define SHAPE_PINS \
  __CPROVER_requires(FRESH_ARR(netLimits_, nn + 1, int) && FRESH_ARR(pinCells_, np, int) && FRESH_ARR(pinXOffsets_, np, int) && FRESH_ARR(pinYOffsets_, np, int))
int nc, nn, np;

int Circuit_placedWidth(const Circuit *this, int cell)
SHAPE_AND_CELL
__CPROVER_requires(cell >= 0 && cell < nc)
__CPROVER_requires(cellWidth_[cell] == g_w && cellHeight_[cell] == g_h && cellOrientation_[cell] == g_o)
__CPROVER_ensures(__CPROVER_return_value == spec_placed_w(g_o, g_w, g_h))
__CPROVER_assigns()
/*@extract
file = "src/coloquinte.cpp"
head = 'int Circuit::placedWidth\(int cell\) const'
@*/

int Circuit_placedHeight(const Circuit *this, int cell)
SHAPE_AND_CELL
__CPROVER_requires(cell >= 0 && cell < nc)
__CPROVER_requires(cellWidth_[cell] == g_w && cellHeight_[cell] == g_h && cellOrientation_[cell] == g_o)
__CPROVER_ensures(__CPROVER_return_value == spec_placed_h(g_o, g_w, g_h))
__CPROVER_assigns()
/*@extract
file = "src/coloquinte.cpp"
head = 'int Circuit::placedHeight\(int cell\) const'
@*/
#define placedWidth(c) Circuit_placedWidth(this, c)
#define placedHeight(c) Circuit_placedHeight(this, c)

/* pin (net, i) is stored at index netLimits_[net] + i and belongs to cell pinCells_[that index] */
#define PIN_PRE \
  SHAPE_AND_CELL SHAPE_PINS \
  __CPROVER_requires(net >= 0 && net < nn && i >= 0) \
  __CPROVER_requires(netLimits_[net] >= 0 && netLimits_[net] <= netLimits_[net + 1] && netLimits_[net + 1] <= np && i < netLimits_[net + 1] - netLimits_[net]) \
  __CPROVER_requires(pinCells_[netLimits_[net] + i] >= 0 && pinCells_[netLimits_[net] + i] < nc) \
  __CPROVER_requires(cellWidth_[pinCells_[netLimits_[net] + i]] == g_w && cellHeight_[pinCells_[netLimits_[net] + i]] == g_h) \
  __CPROVER_requires(cellOrientation_[pinCells_[netLimits_[net] + i]] == g_o && VALID_ORIENT8(g_o)) \
  __CPROVER_requires(pinXOffsets_[netLimits_[net] + i] == g_px && pinYOffsets_[netLimits_[net] + i] == g_py) \
  __CPROVER_requires(MAGSZ(g_w) && MAGSZ(g_h) && MAGV(g_px) && MAGV(g_py))

int Circuit_pinXOffset(const Circuit *this, int net, int i)
PIN_PRE
__CPROVER_ensures(__CPROVER_return_value == spec_pin_x(g_o, g_w, g_h, g_px, g_py))
__CPROVER_assigns()
/*@extract
file = "src/coloquinte.cpp"
head = 'int Circuit::pinXOffset\(int net, int i\) const'
@*/

int Circuit_pinYOffset(const Circuit *this, int net, int i)
PIN_PRE
__CPROVER_ensures(__CPROVER_return_value == spec_pin_y(g_o, g_w, g_h, g_px, g_py))
__CPROVER_assigns()
/*@extract
file = "src/coloquinte.cpp"
head = 'int Circuit::pinYOffset\(int net, int i\) const'
@*/

void harness(void) {
  Circuit *c; int cell, net, i;
  int w, h, px, py; CellOrientation o;
  g_w = w; g_h = h; g_px = px; g_py = py; g_o = o;
#if defined(H_PINX)
  Circuit_pinXOffset(c, net, i);
#elif defined(H_PINY)
  Circuit_pinYOffset(c, net, i);
#elif defined(H_PW)
  Circuit_placedWidth(c, cell);
#else
  Circuit_placedHeight(c, cell);
#endif
  REACH("end");
}
