/*@unit
properties = ["C01", "C04", "C11"]
mode = "dfcc"
enforce = "LegalizerBase_checkAllPlaced"
timeout = 600
function = "LegalizerBase::checkAllPlaced, getOrientation, importLegalization; AbacusLegalizer::check (soundness), evaluatePlacement; Legalizer::run (order) (legalizer.cpp, abacus_legalizer.cpp)"
variants = [
  {name = "checkAllPlaced", enforce = "LegalizerBase_checkAllPlaced", defines = ["H_ALLPLACED"]},
  {name = "remainingObstacles", properties = ["C01"], enforce = "remaining_obstacles", defines = ["H_REMOBST"]},
  {name = "getOrientation", enforce = "LegalizerBase_getOrientation", defines = ["H_GETORIENT"], loop_contracts = false},
  {name = "import", safety_tier = "thorough", enforce = "LegalizerBase_importLegalization", defines = ["H_IMPORT"]},
  {name = "abacusCheck", enforce = "AbacusLegalizer_check", defines = ["H_ABACUSCHECK"], replace = ["LegalizerBase_check"]},
  {name = "evaluate", enforce = "AbacusLegalizer_evaluatePlacement", defines = ["H_EVALUATE"], replace = ["RowLegalizer_getCost", "LegalizerBase_getOrientation"]},
  {name = "run", properties = ["C01", "C11"], enforce = "Legalizer_run", defines = ["H_RUN"], replace = ["LegalizerBase_computeCellOrder", "Legalizer_runTetris", "Legalizer_runAbacus", "LegalizerBase_checkAllPlaced"]},
]
assumptions = ["checker soundness: AbacusLegalizer::run ends in check(); a normal return implies that every cell recorded in a row lies inside that row segment and does not overlap the next cell of the row (ghost row, ghost position); the segments themselves are free row space by C15",
               "counting lemma (paper): when row-high cells without row restrictions have total width at most the free width less one maximum cell width per segment, some segment always has remainingSpace >= width, so placeCell places every cell and checkAllPlaced does not throw",
               "not under contract: TetrisLegalizer (multi-row cells; recursion over stacked rows), AbacusLegalizer::placeCell/run (lambda + getPlacement), LegalizerBase constructor (std::stable_sort), remainingRows (delegates to Row::freespace, C15), computeCellOrder (std::stable_sort: only its being a permutation matters for C01)"]
[replay]
template = "replay/c01_legalize_history.cpp"
search = true
inputs = []
@*/
#include "lower.h"
int verif_exc;
/*@include units/inc/circuit.inc @*/
/*@include units/inc/circuit_off.inc @*/
#undef circuit
#include "spec/orient.h"
#define NMAX 4096
#define RMAX 256
/*@struct
file = "src/place_detailed/legalizer.hpp"
class = "LegalizerBase"
known = ["Row", "CellRowPolarity", "CellOrientation"]
need = ["rows_", "cellWidth_", "cellHeight_", "cellRowPolarity_", "cellTargetOrientation_", "cellToX_", "cellToY_", "cellToOrientation_", "cellIsPlaced_"]
@*/
#define LB {file = "src/place_detailed/legalizer.hpp", class = "LegalizerBase"}
static inline int LegalizerBase_nbCells(const LegalizerBase *this)
/*@extract
file = "src/place_detailed/legalizer.hpp"
within = 'class LegalizerBase\b'
head = 'int nbCells\(\) const'
this_members = {file = "src/place_detailed/legalizer.hpp", class = "LegalizerBase"}
@*/
static inline int LegalizerBase_nbRows(const LegalizerBase *this)
/*@extract
file = "src/place_detailed/legalizer.hpp"
within = 'class LegalizerBase\b'
head = 'int nbRows\(\) const'
this_members = {file = "src/place_detailed/legalizer.hpp", class = "LegalizerBase"}
@*/
static inline bool LegalizerBase_isPlaced(const LegalizerBase *this, int cell)
/*@extract
file = "src/place_detailed/legalizer.hpp"
within = 'class LegalizerBase\b'
head = 'bool isPlaced\(int cell\) const'
this_members = {file = "src/place_detailed/legalizer.hpp", class = "LegalizerBase"}
@*/
#define nbCells() LegalizerBase_nbCells(this)
#define nbRows() LegalizerBase_nbRows(this)
#define isPlaced(c) LegalizerBase_isPlaced(this, c)
int n, m, g;
int g_other; CellOrientation g_orient;

#ifdef H_REMOBST
/* first loop of LegalizerBase::remainingRows (sliced): the obstacles handed to Row::freespace (C15 units) */
int g_nobst; bool g_obst_pushed; Rectangle g_obst_rec;
#define OBST_EMPLACE(a, b, c, d) do { if (i == g) { g_obst_pushed = 1; g_obst_rec = (Rectangle){(a), (b), (c), (d)}; } if (g_nobst < NMAX) g_nobst++; } while (0)
void remaining_obstacles(const LegalizerBase *this)
__CPROVER_requires(__CPROVER_is_fresh(this, sizeof(*this)) && verif_exc == 0 && 0 <= n && n <= NMAX && CFRESH(this, cellWidth_, n, int) && CFRESH(this, cellHeight_, n, int) && CFRESH(this, cellToX_, n, int) && CFRESH(this, cellToY_, n, int) && CFRESH(this, cellIsPlaced_, n, bool))
__CPROVER_requires(0 <= g && g < n && !g_obst_pushed && g_nobst == 0 && MAGV(this->cellToX_[g]) && MAGV(this->cellToY_[g]) && MAGSZ(this->cellWidth_[g]) && MAGSZ(this->cellHeight_[g]))
/* C01: every cell placed so far is cut out of the rows that remain for the next pass, as the rectangle it occupies
 * [x, x + width) x [y, y + height) (Rectangle is (minX, maxX, minY, maxY)); cells not placed yet are not */
__CPROVER_ensures(g_obst_pushed == this->cellIsPlaced_[g])
__CPROVER_ensures(this->cellIsPlaced_[g] ==> (g_obst_rec.minX == this->cellToX_[g] && g_obst_rec.maxX == this->cellToX_[g] + this->cellWidth_[g] && g_obst_rec.minY == this->cellToY_[g] && g_obst_rec.maxY == this->cellToY_[g] + this->cellHeight_[g]))
__CPROVER_assigns(g_nobst, g_obst_pushed, g_obst_rec)
/*@extract
file = "src/place_detailed/legalizer.cpp"
head = 'std::vector<Row> LegalizerBase::remainingRows\(\) const'
slice_from = 'for \(int i = 0; i < nbCells\(\); \+\+i\) \{'
slice_to = 'std::vector<Row> ret;'
this_members = {file = "src/place_detailed/legalizer.hpp", class = "LegalizerBase"}
nloops = 1
rewrites = [['obstacles\.emplace_back\(', 'OBST_EMPLACE(', '1+']]
[[loops]]
ordinal = 1
contract = """
__CPROVER_assigns(i, g_nobst, g_obst_pushed, g_obst_rec)
__CPROVER_loop_invariant(0 <= i && i <= n && 0 <= g_nobst && (g >= i ==> !g_obst_pushed))
__CPROVER_loop_invariant(g < i ==> (g_obst_pushed == this->cellIsPlaced_[g] && (this->cellIsPlaced_[g] ==> (g_obst_rec.minX == this->cellToX_[g] && g_obst_rec.maxX == this->cellToX_[g] + this->cellWidth_[g] && g_obst_rec.minY == this->cellToY_[g] && g_obst_rec.maxY == this->cellToY_[g] + this->cellHeight_[g]))))
__CPROVER_decreases(n - i)
"""
[[ghosts]]
at = 'body_start:1'
text = """GHOST(const int g_x = this->cellToX_[i]; const int g_y = this->cellToY_[i]; const int g_w = this->cellWidth_[i]; const int g_h = this->cellHeight_[i];) __CPROVER_assume(MAGV(g_x) && MAGV(g_y) && MAGSZ(g_w) && MAGSZ(g_h)); /* INSTANTIATE MAG(i) */"""
@*/
#endif

#ifdef H_ALLPLACED
void LegalizerBase_checkAllPlaced(const LegalizerBase *this)
__CPROVER_requires(__CPROVER_is_fresh(this, sizeof(*this)) && verif_exc == 0 && 0 <= n && n <= NMAX && CFRESH(this, cellWidth_, n, int) && CFRESH(this, cellIsPlaced_, n, bool) && 0 <= g && g < n)
/* C01: legalization returns normally only if every cell was placed; otherwise it raises */
__CPROVER_ensures(!verif_exc ==> this->cellIsPlaced_[g])
__CPROVER_ensures(!this->cellIsPlaced_[g] ==> verif_exc)
__CPROVER_assigns(verif_exc)
/*@extract
file = "src/place_detailed/legalizer.cpp"
head = 'void LegalizerBase::checkAllPlaced\(\) const'
this_members = {file = "src/place_detailed/legalizer.hpp", class = "LegalizerBase"}
nloops = 1
[[loops]]
ordinal = 1
contract = '''
__CPROVER_assigns(i, verif_exc)
__CPROVER_loop_invariant(0 <= i && i <= n && verif_exc == 0)
__CPROVER_loop_invariant(g < i ==> this->cellIsPlaced_[g])
__CPROVER_decreases(n - i)
'''
@*/
#endif

#undef VERIF_DUMMY
#define VERIF_DUMMY CellOrientation_INVALID
CellOrientation oppositeRowOrientation(CellOrientation o)
/*@extract
file = "src/parameters.cpp"
head = 'CellOrientation oppositeRowOrientation\(CellOrientation o\)'
@*/
CellOrientation cellOrientationInRow(CellRowPolarity cellPolarity, CellOrientation rowOrientation)
/*@extract
file = "src/parameters.cpp"
head = 'CellOrientation cellOrientationInRow\(CellRowPolarity cellPolarity,\s*CellOrientation rowOrientation\)'
@*/
CellOrientation LegalizerBase_getOrientation(const LegalizerBase *this, int cell, int row)
#if defined(H_GETORIENT)
__CPROVER_requires(__CPROVER_is_fresh(this, sizeof(*this)) && 1 <= n && n <= NMAX && 1 <= m && m <= RMAX && CFRESH(this, cellRowPolarity_, n, CellRowPolarity) && CFRESH(this, cellTargetOrientation_, n, CellOrientation) && CFRESH(this, rows_, m, Row))
__CPROVER_requires(0 <= cell && cell < n && 0 <= row && row < m && VALID_POLARITY(this->cellRowPolarity_[cell]))
/* C04: cells without polarity keep their orientation; polarised cells get the orientation prescribed for the row (INVALID = forbidden row) */
__CPROVER_ensures(__CPROVER_return_value == (spec_orientation_in_row(this->cellRowPolarity_[cell], this->rows_[row].orientation) == CellOrientation_UNKNOWN ? this->cellTargetOrientation_[cell] : spec_orientation_in_row(this->cellRowPolarity_[cell], this->rows_[row].orientation)))
__CPROVER_assigns()
#elif defined(H_EVALUATE)
__CPROVER_requires(0 <= cell && cell < n && 0 <= row && row < m)
__CPROVER_ensures(__CPROVER_return_value == g_orient)
__CPROVER_assigns();
#define SKIP_GETORIENT_BODY
#endif
#ifndef SKIP_GETORIENT_BODY
/*@extract
file = "src/place_detailed/legalizer.cpp"
head = 'CellOrientation LegalizerBase::getOrientation\(int cell, int row\) const'
this_members = {file = "src/place_detailed/legalizer.hpp", class = "LegalizerBase"}
@*/
#endif
#undef VERIF_DUMMY
#define VERIF_DUMMY

#ifdef H_IMPORT
int nl; int g_j;  /* ghost position in the sub-legalizer */
void LegalizerBase_importLegalization(LegalizerBase *this, const LegalizerBase *leg_p, const int *cells, int cells_size)
__CPROVER_requires(__CPROVER_is_fresh(this, sizeof(*this)) && __CPROVER_is_fresh(leg_p, sizeof(*leg_p)) && 1 <= n && n <= NMAX && 0 <= nl && nl <= NMAX && cells_size == nl && __CPROVER_is_fresh(cells, nl * sizeof(int)))
__CPROVER_requires(CFRESH(this, cellWidth_, n, int) && CFRESH(this, cellToX_, n, int) && CFRESH(this, cellToY_, n, int) && CFRESH(this, cellToOrientation_, n, CellOrientation) && CFRESH(this, cellIsPlaced_, n, bool))
__CPROVER_requires(CFRESH(leg_p, cellWidth_, nl, int) && CFRESH(leg_p, cellToX_, nl, int) && CFRESH(leg_p, cellToY_, nl, int) && CFRESH(leg_p, cellToOrientation_, nl, CellOrientation) && CFRESH(leg_p, cellIsPlaced_, nl, bool))
__CPROVER_requires(0 <= g && g < n && 0 <= g_j && g_j < nl && cells[g_j] == g)
/* cells is injective at the ghost position: no other position maps to the ghost cell (cells are distinct) */
/* C01: exactly the cells the sub-legalizer placed are imported, with its result */
__CPROVER_ensures(leg_p->cellIsPlaced_[g_j] ==> (this->cellIsPlaced_[g] && this->cellToX_[g] == leg_p->cellToX_[g_j] && this->cellToY_[g] == leg_p->cellToY_[g_j] && this->cellToOrientation_[g] == leg_p->cellToOrientation_[g_j]))
__CPROVER_ensures(!leg_p->cellIsPlaced_[g_j] ==> (this->cellIsPlaced_[g] == __CPROVER_old(this->cellIsPlaced_[g]) && this->cellToX_[g] == __CPROVER_old(this->cellToX_[g])))
__CPROVER_assigns(__CPROVER_object_whole(this->cellToX_), __CPROVER_object_whole(this->cellToY_), __CPROVER_object_whole(this->cellToOrientation_), __CPROVER_object_whole(this->cellIsPlaced_))
#define leg (*leg_p)
/*@extract
file = "src/place_detailed/legalizer.cpp"
head = 'void LegalizerBase::importLegalization\(const LegalizerBase &leg,'
this_members = {file = "src/place_detailed/legalizer.hpp", class = "LegalizerBase"}
nloops = 1
rewrites = [['std::vector<int> (x|y) = leg\.(cellLegalX|cellLegalY)\(\);', 'int *\1 = leg_p->\2_MEMBER;', '2'], ['std::vector<CellOrientation> o = leg\.cellLegalOrientation\(\);', 'CellOrientation *o = leg_p->cellToOrientation_;', '1'],
            ['leg\.nbCells\(\)', 'LegalizerBase_nbCells(leg_p)', '1+'], ['size_t i = 0; i < cells\.size\(\)', 'int i = 0; i < cells_size', '1']]
post_rewrites = [['leg_p->cellLegalX_MEMBER', 'leg_p->cellToX_', '1'], ['leg_p->cellLegalY_MEMBER', 'leg_p->cellToY_', '1'], ['leg\.this->', 'leg.', '*']]
[[loops]]
ordinal = 1
contract = '''
__CPROVER_assigns(i, __CPROVER_object_whole(this->cellToX_), __CPROVER_object_whole(this->cellToY_), __CPROVER_object_whole(this->cellToOrientation_), __CPROVER_object_whole(this->cellIsPlaced_))
__CPROVER_loop_invariant(0 <= i && i <= nl)
__CPROVER_loop_invariant((g_j < i && leg_p->cellIsPlaced_[g_j]) ==> (this->cellIsPlaced_[g] && this->cellToX_[g] == leg_p->cellToX_[g_j] && this->cellToY_[g] == leg_p->cellToY_[g_j] && this->cellToOrientation_[g] == leg_p->cellToOrientation_[g_j]))
__CPROVER_loop_invariant((g_j >= i || !leg_p->cellIsPlaced_[g_j]) ==> (this->cellIsPlaced_[g] == g_oldplaced && this->cellToX_[g] == g_oldx))
__CPROVER_decreases(nl - i)
'''
[[ghosts]]
at = 'before:1'
text = '''GHOST(const bool g_oldplaced = this->cellIsPlaced_[g]; const int g_oldx = this->cellToX_[g];)'''
[[ghosts]]
after = 'int c = cells\[i\];'
text = '''__CPROVER_assume(0 <= c && c < n && (i == g_j || c != g)); /* INSTANTIATE cells_in_range(i), cells_distinct(i, g_j): the selected cells are distinct cells of this legalizer */'''
@*/
#undef leg
#endif

#ifdef H_ABACUSCHECK
/* AbacusLegalizer: LegalizerBase + rowToCells_ (vector<vector<int>>).  Model of the nested vector: per-row lengths in a
 * ghost array; the contents of the ghost row g_r are the array g_rowcells, the contents of every other row are arbitrary
 * cell indices (over-approximation: the facts proved concern the ghost row only) */
typedef struct { LegalizerBase base; } AbacusLegalizer;
void LegalizerBase_check(const LegalizerBase *this)
__CPROVER_requires(1)
__CPROVER_ensures(1)
__CPROVER_assigns(verif_exc);
int g_r, g_pos;   /* ghost row and ghost position in that row */
int g_len; int *g_rowcells; int *g_rowsize; int g_c1, g_c2;
int nondet_int(void);
static inline int ROWCELL(int i, int k) { if (i == g_r) return g_rowcells[k]; int c = nondet_int(); __CPROVER_assume(0 <= c && c < n); return c; }
#define ROWSIZE(i) (g_rowsize[i])
void AbacusLegalizer_check(const AbacusLegalizer *self)
__CPROVER_requires(__CPROVER_is_fresh(self, sizeof(*self)) && verif_exc == 0 && 1 <= n && n <= NMAX && 1 <= m && m <= RMAX)
__CPROVER_requires(CFRESH(&self->base, cellWidth_, n, int) && CFRESH(&self->base, cellToX_, n, int) && CFRESH(&self->base, rows_, m, Row))
__CPROVER_requires(__CPROVER_is_fresh(g_rowsize, m * sizeof(int)))
/* the ghost row's cell list and two consecutive entries of it */
__CPROVER_requires(0 <= g_r && g_r < m && g_len == g_rowsize[g_r] && 0 <= g_len && g_len <= NMAX && __CPROVER_is_fresh(g_rowcells, g_len * sizeof(int)))
__CPROVER_requires(0 <= g_pos && g_pos < g_len && g_c1 == g_rowcells[g_pos] && 0 <= g_c1 && g_c1 < n && (g_pos + 1 < g_len ==> (g_c2 == g_rowcells[g_pos + 1] && 0 <= g_c2 && g_c2 < n)))
__CPROVER_requires(MAGV(self->base.cellToX_[g_c1]) && MAGSZ(self->base.cellWidth_[g_c1]))
/* checker soundness (C01): normal return => the cell lies inside its row segment and does not overlap its successor */
__CPROVER_ensures(!verif_exc ==> (self->base.cellToX_[g_c1] >= self->base.rows_[g_r].minX && self->base.cellToX_[g_c1] + self->base.cellWidth_[g_c1] <= self->base.rows_[g_r].maxX))
__CPROVER_ensures((!verif_exc && g_pos + 1 < g_len) ==> self->base.cellToX_[g_c1] + self->base.cellWidth_[g_c1] <= self->base.cellToX_[g_c2])
__CPROVER_assigns(verif_exc)
#define this (&self->base)
/*@extract
file = "src/place_detailed/abacus_legalizer.cpp"
head = 'void AbacusLegalizer::check\(\) const'
this_members = {file = "src/place_detailed/legalizer.hpp", class = "LegalizerBase"}
nloops = 4
rewrites = [['LegalizerBase::check\(\);', 'LegalizerBase_check(this); VERIF_PROPAGATE;', '1'],
            ['for \(int c : rowToCells_\[i\]\) \{', 'for (int _k = 0; _k < ROWSIZE(i); ++_k) { int c = ROWCELL(i, _k);', '1'],
            ['size_t j = 0; j \+ 1 < rowToCells_\[i\]\.size\(\)', 'int j = 0; j + 1 < ROWSIZE(i)', '1'],
            ['rowToCells_\[(\w+)\]\[([^\]]+)\]', 'ROWCELL(\1, \2)', '2']]
[[loops]]
ordinal = 1
contract = '''
__CPROVER_assigns(i, verif_exc)
__CPROVER_loop_invariant(0 <= i && i <= m && verif_exc == 0)
__CPROVER_loop_invariant(g_r < i ==> (this->cellToX_[g_c1] >= this->rows_[g_r].minX && this->cellToX_[g_c1] + this->cellWidth_[g_c1] <= this->rows_[g_r].maxX))
__CPROVER_decreases(m - i)
'''
[[loops]]
ordinal = 2
contract = '''
__CPROVER_assigns(_k, verif_exc)
__CPROVER_loop_invariant(0 <= _k && _k <= g_rs && verif_exc == 0)
__CPROVER_loop_invariant((i == g_r && g_pos < _k) ==> (this->cellToX_[g_c1] >= this->rows_[g_r].minX && this->cellToX_[g_c1] + this->cellWidth_[g_c1] <= this->rows_[g_r].maxX))
__CPROVER_decreases(g_rs - _k)
'''
[[loops]]
ordinal = 3
contract = '''
__CPROVER_assigns(i, verif_exc)
__CPROVER_loop_invariant(0 <= i && i <= m && verif_exc == 0)
__CPROVER_loop_invariant((g_r < i && g_pos + 1 < g_len) ==> this->cellToX_[g_c1] + this->cellWidth_[g_c1] <= this->cellToX_[g_c2])
__CPROVER_decreases(m - i)
'''
[[loops]]
ordinal = 4
contract = '''
__CPROVER_assigns(j, verif_exc)
__CPROVER_loop_invariant(0 <= j && j <= g_rs3 && verif_exc == 0)
__CPROVER_loop_invariant((i == g_r && g_pos < j && g_pos + 1 < g_len) ==> this->cellToX_[g_c1] + this->cellWidth_[g_c1] <= this->cellToX_[g_c2])
__CPROVER_decreases(g_rs3 - j)
'''
[[ghosts]]
at = 'body_start:1'
text = '''GHOST(const int g_rs = g_rowsize[i];) __CPROVER_assume(0 <= g_rs && g_rs <= NMAX); /* INSTANTIATE row_list_length(i) */'''
[[ghosts]]
at = 'body_start:3'
text = '''GHOST(const int g_rs3 = g_rowsize[i];) __CPROVER_assume(0 <= g_rs3 && g_rs3 <= NMAX); /* INSTANTIATE row_list_length(i) */'''
[[ghosts]]
after = 'int c = ROWCELL\(i, _k\);'
text = '''__CPROVER_assume(0 <= c && c < n); GHOST(const int g_cx = this->cellToX_[c]; const int g_cw = this->cellWidth_[c];) __CPROVER_assume(MAGV(g_cx) && MAGSZ(g_cw)); /* INSTANTIATE cells_in_range, MAG */'''
[[ghosts]]
after = 'int c2 = ROWCELL\(i, j \+ 1\);'
text = '''__CPROVER_assume(0 <= c1 && c1 < n && 0 <= c2 && c2 < n); GHOST(const int g_c1x = this->cellToX_[c1]; const int g_c1w = this->cellWidth_[c1];) __CPROVER_assume(MAGV(g_c1x) && MAGSZ(g_c1w)); /* INSTANTIATE cells_in_range, MAG */'''
@*/
#undef this
#endif

#ifdef H_EVALUATE
typedef struct { int begin_, end_, used; } RowLegalizerView;   /* abstract view: remainingSpace() = end_ - begin_ - used */
typedef struct { LegalizerBase base; RowLegalizerView *rowLegalizers_; int rowLegalizers__size; } AbacusLegalizerE;
long long RowLegalizer_getCost(RowLegalizerView *rl, int width, int targetPos)
/* the precondition of RowLegalizer::getDisplacement (unit c12_row_legalizer), to be established at this call site */
__CPROVER_requires(1 <= width && width <= rl->end_ - rl->begin_ - rl->used)
__CPROVER_ensures(__CPROVER_return_value >= 0)
__CPROVER_assigns();
#define RowLegalizer_remainingSpace(rl) ((rl)->end_ - (rl)->begin_ - (rl)->used)
Pair_bool_longlong AbacusLegalizer_evaluatePlacement(AbacusLegalizerE *self, int cell, int row)
__CPROVER_requires(__CPROVER_is_fresh(self, sizeof(*self)) && 1 <= n && n <= NMAX && 1 <= m && m <= RMAX && CFRESH(&self->base, cellWidth_, n, int) && CFRESH(&self->base, cellTargetX_, n, int))
__CPROVER_requires(self->rowLegalizers__size == m && __CPROVER_is_fresh(self->rowLegalizers_, m * sizeof(RowLegalizerView)) && 0 <= cell && cell < n && 0 <= row && row < m)
__CPROVER_requires(self->base.cellWidth_[cell] >= 1 && MAGV(self->rowLegalizers_[row].begin_) && MAGV(self->rowLegalizers_[row].end_) && self->rowLegalizers_[row].used >= 0 && self->rowLegalizers_[row].used <= 8388608)
/* C01/C04: a row without enough remaining space, or one the cell's polarity forbids, is refused */
__CPROVER_ensures((RowLegalizer_remainingSpace(&self->rowLegalizers_[row]) < self->base.cellWidth_[cell] || g_orient == CellOrientation_INVALID) ==> !__CPROVER_return_value.first)
/* "never fails when success is trivial" needs: enough space and an admissible orientation => accepted */
__CPROVER_ensures((RowLegalizer_remainingSpace(&self->rowLegalizers_[row]) >= self->base.cellWidth_[cell] && g_orient != CellOrientation_INVALID) ==> __CPROVER_return_value.first)
__CPROVER_assigns()
#define this (&self->base)
#undef std_make_pair
#define std_make_pair(a, b) ((Pair_bool_longlong){(a), (b)})
/*@extract
file = "src/place_detailed/abacus_legalizer.cpp"
head = 'std::pair<bool, long long> AbacusLegalizer::evaluatePlacement\(int cell,'
this_members = {file = "src/place_detailed/legalizer.hpp", class = "LegalizerBase"}
rewrites = [['rowLegalizers_\[row\]\.remainingSpace\(\)', 'RowLegalizer_remainingSpace(&self->rowLegalizers_[row])', '1+'],
            ['rowLegalizers_\[row\]\.getCost\(', 'RowLegalizer_getCost(&self->rowLegalizers_[row], ', '1+'],
            ['(?<![\w.])getOrientation\(', 'LegalizerBase_getOrientation(this, ', '1+']]
@*/
#undef this
#endif

#ifdef H_RUN
typedef struct ColoquinteParametersL { struct { double orderingWidth, orderingY, orderingHeight; } legalization; } ColoquinteParametersL;
bool g_ordered, g_tetris, g_abacus, g_checked;
double g_ow, g_oy, g_oh;   /* ghost copies of the three ordering parameters */
int *LegalizerBase_computeCellOrder(const LegalizerBase *this, float wx, float ww, float wy, float wh)
/* C11: computeCellOrder(weightX, weightWidth, weightY, weightHeight) receives x with weight 1 and each ordering parameter in the slot of its name */
__CPROVER_requires(wx == 1.0f && ww == (float)g_ow && wy == (float)g_oy && wh == (float)g_oh) __CPROVER_ensures(g_ordered) __CPROVER_assigns(g_ordered);
void Legalizer_runTetris(LegalizerBase *this, const int *cells)
__CPROVER_requires(g_ordered) __CPROVER_ensures(!verif_exc ==> g_tetris) __CPROVER_assigns(verif_exc, g_tetris);
void Legalizer_runAbacus(LegalizerBase *this, const int *cells)
__CPROVER_requires(g_tetris)   /* tall cells first: the row-high pass runs on the rows that remain */
__CPROVER_ensures(!verif_exc ==> g_abacus) __CPROVER_assigns(verif_exc, g_abacus);
void LegalizerBase_checkAllPlaced(const LegalizerBase *this)
__CPROVER_requires(g_abacus) __CPROVER_ensures(!verif_exc ==> g_checked) __CPROVER_assigns(verif_exc, g_checked);
void Legalizer_run(LegalizerBase *this, const ColoquinteParametersL *params_p)
__CPROVER_requires(__CPROVER_is_fresh(this, sizeof(*this)) && __CPROVER_is_fresh(params_p, sizeof(*params_p)) && verif_exc == 0 && !g_ordered && !g_tetris && !g_abacus && !g_checked)
__CPROVER_requires(g_ow == params_p->legalization.orderingWidth && g_oy == params_p->legalization.orderingY && g_oh == params_p->legalization.orderingHeight && g_ow >= -1.0e6 && g_ow <= 1.0e6 && g_oy >= -1.0e6 && g_oy <= 1.0e6 && g_oh >= -1.0e6 && g_oh <= 1.0e6)
/* C01: run() returns normally only after the final all-placed check passed */
__CPROVER_ensures(!verif_exc ==> g_checked)
__CPROVER_assigns(verif_exc, g_ordered, g_tetris, g_abacus, g_checked)
#define params (*params_p)
/*@extract
file = "src/place_detailed/legalizer.cpp"
head = 'void Legalizer::run\(const ColoquinteParameters &params\)'
rewrites = [['std::vector<int> cellOrder = computeCellOrder\(', 'int *cellOrder = LegalizerBase_computeCellOrder(this, ', '1'],
            ['\brunTetris\(cellOrder\);', 'Legalizer_runTetris(this, cellOrder); VERIF_PROPAGATE;', '1+'], ['\brunAbacus\(cellOrder\);', 'Legalizer_runAbacus(this, cellOrder); VERIF_PROPAGATE;', '1+'],
            ['\bcheckAllPlaced\(\);', 'LegalizerBase_checkAllPlaced(this); VERIF_PROPAGATE;', '*']]
@*/
#undef params
#endif

void harness(void) {
  LegalizerBase *l, *l2; int a, b; int *cells;
#if defined(H_ALLPLACED)
  LegalizerBase_checkAllPlaced(l);
#elif defined(H_REMOBST)
  remaining_obstacles(l);
#elif defined(H_GETORIENT)
  LegalizerBase_getOrientation(l, a, b);
#elif defined(H_IMPORT)
  LegalizerBase_importLegalization(l, l2, cells, a);
#elif defined(H_ABACUSCHECK)
  AbacusLegalizer *ab; AbacusLegalizer_check(ab);
#elif defined(H_EVALUATE)
  AbacusLegalizerE *ab; AbacusLegalizer_evaluatePlacement(ab, a, b);
#else
  ColoquinteParametersL *p; Legalizer_run(l, p);
#endif
  REACH("end");
}
