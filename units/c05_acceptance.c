/*@unit
properties = ["C05"]
mode = "dfcc"
enforce = "DetailedPlacer_bestSwap"
timeout = 300
function = "DetailedPlacer::bestSwap, bestInsert, bestSwapUpdate (place_detailed.cpp): a move is applied only if its evaluated value is below the current one"
variants = [
  {name = "bestSwap", enforce = "DetailedPlacer_bestSwap", defines = ["H_SWAP"], replace = ["DetailedPlacer_valueOnSwap", "DetailedPlacer_doSwap"]},
  {name = "bestInsert", enforce = "DetailedPlacer_bestInsert", defines = ["H_INSERT"], replace = ["DetailedPlacer_valueOnInsert", "DetailedPlacer_doInsert"]},
  {name = "bestSwapUpdate", enforce = "DetailedPlacer_bestSwapUpdate", defines = ["H_UPDATE"], replace = ["DetailedPlacer_valueOnSwap", "DetailedPlacer_doSwap", "Placement_cellNext", "Placement_cellPred"]},
]
assumptions = ["ghost value oracle: G[k] = the objective after the move with candidate k from the loop's (unchanging) state, F[k] = feasibility; valueOnSwap/valueOnInsert return it and restore the state, doSwap/doInsert establish it (their own bodies: unit c05_evaluate)",
               "the objective that the optimiser maintains equals Circuit::hpwl() only for orientation-preserving moves (C09 incremental consistency); orientation-changing moves are the known finding of C05",
               "runShiftsOnCells (lemon network simplex) and RowReordering are not under contract"]
[replay]
template = "replay/c02_detailed_history.cpp"
search = true
inputs = []
@*/
#include "lower.h"
int verif_exc;
#define NMAX 4096
/* abstract view of the DetailedPlacer used only by these units */
typedef struct { long long value; int cur; long long *G; bool *F; int n; } DetailedPlacer;
#define value() (this->value)
#define SHAPE (__CPROVER_is_fresh(this, sizeof(*this)) && 1 <= this->n && this->n <= NMAX && __CPROVER_is_fresh(this->G, sizeof(long long) * (this->n + 1)) && __CPROVER_is_fresh(this->F, sizeof(bool) * (this->n + 1)))
/* C05: the value never increases; without an applied move it is unchanged (strict decrease is not demanded by the property) */
#define ACCEPTANCE \
  __CPROVER_ensures(this->value <= __CPROVER_old(this->value)) \
  __CPROVER_ensures(!__CPROVER_return_value ==> this->value == __CPROVER_old(this->value))

Pair_bool_longlong DetailedPlacer_valueOnSwap(DetailedPlacer *this, int c1, int c2)
__CPROVER_requires(0 <= c2 && c2 < this->n && c1 == this->cur)
__CPROVER_ensures(__CPROVER_return_value.first == this->F[c2])
__CPROVER_ensures(__CPROVER_return_value.first ==> __CPROVER_return_value.second == this->G[c2])
__CPROVER_assigns();
void DetailedPlacer_doSwap(DetailedPlacer *this, int c1, int c2)
__CPROVER_requires(0 <= c2 && c2 < this->n && c1 == this->cur && this->F[c2])   /* only an evaluated, feasible candidate is applied */
__CPROVER_ensures(this->value == this->G[c2])
__CPROVER_assigns(this->value);
/* insertion candidates are predecessor cells, -1 = first position: ghost arrays are indexed by pred + 1 */
Pair_bool_longlong DetailedPlacer_valueOnInsert(DetailedPlacer *this, int c, int row, int pred)
__CPROVER_requires(-1 <= pred && pred < this->n && c == this->cur)
__CPROVER_ensures(__CPROVER_return_value.first == this->F[pred + 1])
__CPROVER_ensures(__CPROVER_return_value.first ==> __CPROVER_return_value.second == this->G[pred + 1])
__CPROVER_assigns();
void DetailedPlacer_doInsert(DetailedPlacer *this, int c, int row, int pred)
__CPROVER_requires(-1 <= pred && pred < this->n && c == this->cur && this->F[pred + 1])
__CPROVER_ensures(this->value == this->G[pred + 1])
__CPROVER_assigns(this->value);
#define valueOnSwap(a, b) DetailedPlacer_valueOnSwap(this, a, b)
#define doSwap(a, b) DetailedPlacer_doSwap(this, a, b)
#define valueOnInsert(a, r, b) DetailedPlacer_valueOnInsert(this, a, r, b)
#define doInsert(a, r, b) DetailedPlacer_doInsert(this, a, r, b)

#ifdef H_SWAP
bool DetailedPlacer_bestSwap(DetailedPlacer *this, int c, const int *candidates, int candidates_size)
__CPROVER_requires(SHAPE && 0 <= candidates_size && candidates_size <= NMAX && __CPROVER_is_fresh(candidates, sizeof(int) * candidates_size) && c == this->cur)
ACCEPTANCE
__CPROVER_assigns(this->value)
/*@extract
file = "src/place_detailed/place_detailed.cpp"
head = 'bool DetailedPlacer::bestSwap\(int c, const std::vector<int> &candidates\)'
nloops = 1
[[loops]]
ordinal = 1
contract = '''
__CPROVER_assigns(_i_candidate, found, bestCandidate, bestValue)
__CPROVER_loop_invariant(0 <= _i_candidate && _i_candidate <= candidates_size && bestValue <= this->value)
__CPROVER_loop_invariant(found ==> (0 <= bestCandidate && bestCandidate < this->n && this->F[bestCandidate] && this->G[bestCandidate] <= bestValue && this->G[bestCandidate] <= this->value))
__CPROVER_decreases(candidates_size - _i_candidate)
'''
[[ghosts]]
after = 'int candidate = candidates\[_i_candidate\];'
text = '''__CPROVER_assume(0 <= candidate && candidate < this->n); /* INSTANTIATE candidates_in_range(i): candidates are cells of the placement */'''
@*/
#endif
#ifdef H_INSERT
bool DetailedPlacer_bestInsert(DetailedPlacer *this, int c, int row, const int *candidates, int candidates_size)
__CPROVER_requires(SHAPE && 0 <= candidates_size && candidates_size <= NMAX && __CPROVER_is_fresh(candidates, sizeof(int) * candidates_size) && c == this->cur)
ACCEPTANCE
__CPROVER_assigns(this->value)
/*@extract
file = "src/place_detailed/place_detailed.cpp"
head = 'bool DetailedPlacer::bestInsert\(int c, int row,'
nloops = 1
[[loops]]
ordinal = 1
contract = '''
__CPROVER_assigns(_i_candidate, found, bestCandidate, bestValue)
__CPROVER_loop_invariant(0 <= _i_candidate && _i_candidate <= candidates_size && bestValue <= this->value)
__CPROVER_loop_invariant(found ==> (-1 <= bestCandidate && bestCandidate < this->n && this->F[bestCandidate + 1] && this->G[bestCandidate + 1] <= bestValue && this->G[bestCandidate + 1] <= this->value))
__CPROVER_decreases(candidates_size - _i_candidate)
'''
[[ghosts]]
after = 'int candidate = candidates\[_i_candidate\];'
text = '''__CPROVER_assume(-1 <= candidate && candidate < this->n); /* INSTANTIATE candidates_in_range(i) */'''
@*/
#endif
#ifdef H_UPDATE
/* the row list is walked through the placement: any cell index or -1 */
int Placement_cellNext(const DetailedPlacer *this, int c)
__CPROVER_requires(0 <= c && c < this->n)
__CPROVER_ensures(-1 <= __CPROVER_return_value && __CPROVER_return_value < this->n)
__CPROVER_assigns();
int Placement_cellPred(const DetailedPlacer *this, int c)
__CPROVER_requires(0 <= c && c < this->n)
__CPROVER_ensures(-1 <= __CPROVER_return_value && __CPROVER_return_value < this->n)
__CPROVER_assigns();
bool DetailedPlacer_bestSwapUpdate(DetailedPlacer *this, int *c_p, int *from_p, int nbNeighbours)
__CPROVER_requires(SHAPE && __CPROVER_is_fresh(c_p, sizeof(int)) && __CPROVER_is_fresh(from_p, sizeof(int)) && *c_p == this->cur && -1 <= *from_p && *from_p < this->n && nbNeighbours <= NMAX)
ACCEPTANCE
__CPROVER_assigns(this->value, *c_p, *from_p)
#define c (*c_p)
#define from (*from_p)
/*@extract
file = "src/place_detailed/place_detailed.cpp"
head = 'bool DetailedPlacer::bestSwapUpdate\(int &c, int &from, int nbNeighbours\)'
nloops = 2
rewrites = [['placement_\.cellNext\(', 'Placement_cellNext(this, ', '1+'], ['placement_\.cellPred\(', 'Placement_cellPred(this, ', '1+']]
[[loops]]
ordinal = 1
contract = '''
__CPROVER_assigns(candidate, count, found, bestCandidate, bestValue)
__CPROVER_loop_invariant(0 <= count && (count <= nbNeighbours || count == 0) && -1 <= candidate && candidate < this->n && bestValue <= this->value && c == this->cur)
__CPROVER_loop_invariant(found ==> (0 <= bestCandidate && bestCandidate < this->n && this->F[bestCandidate] && this->G[bestCandidate] <= bestValue && this->G[bestCandidate] <= this->value))
__CPROVER_decreases(nbNeighbours - count)
'''
[[loops]]
ordinal = 2
contract = '''
__CPROVER_assigns(candidate, count, found, bestCandidate, bestValue)
__CPROVER_loop_invariant(0 <= count && (count <= nbNeighbours || count == 0) && -1 <= candidate && candidate < this->n && bestValue <= this->value && c == this->cur)
__CPROVER_loop_invariant(found ==> (0 <= bestCandidate && bestCandidate < this->n && this->F[bestCandidate] && this->G[bestCandidate] <= bestValue && this->G[bestCandidate] <= this->value))
__CPROVER_decreases(nbNeighbours - count)
'''
@*/
#undef c
#undef from
#endif

void harness(void) {
  DetailedPlacer *t; int c, row; int *cand; int n; int *cp, *fp;
#if defined(H_SWAP)
  DetailedPlacer_bestSwap(t, c, cand, n);
#elif defined(H_INSERT)
  DetailedPlacer_bestInsert(t, c, row, cand, n);
#else
  DetailedPlacer_bestSwapUpdate(t, cp, fp, n);
#endif
  REACH("end");
}
