/*@unit
properties = ["C02", "C04"]
mode = "dfcc"
enforce = "DetailedPlacement_canInsert"
loop_contracts = false
timeout = 600
solver = "kissat"
function = "DetailedPlacement::canPlace, canInsert, canSwap, positionOnInsert, positionsOnSwap, isRowCompatible (detailed_placement.cpp/.hpp): feasibility tests against the site-width specification, computed positions inside the destination site"
variants = [
  {name = "canInsert", enforce = "spec_canInsert", defines = ["H_CANINSERT"]},
  {name = "posInsert", safety_tier = "thorough", enforce = "spec_positionOnInsert", defines = ["H_POSINSERT"]},
  {name = "canSwap", safety_tier = "thorough", enforce = "spec_canSwap", defines = ["H_CANSWAP"]},
  {name = "posSwap", safety_tier = "thorough", enforce = "spec_positionsOnSwap", defines = ["H_POSSWAP"]},
]
assumptions = ["these quick-tier units check the feasibility tests and the centring formulas against the site specification on a well-formed state; the composition (insert/swap keep the whole invariant, never throw when feasible) is the thorough-tier unit c02_dp_insert"]
[replay]
template = "replay/c02_detailed_history.cpp"
search = true
inputs = []
@*/
#include "lower.h"
int verif_exc;
/*@include units/inc/detailed_placement.inc @*/
#define NMAX 1000
#define RMAX 100
#define DP_FRESH(p) (__CPROVER_is_fresh(p, sizeof(*p)) && 1 <= p->cellWidth__size && p->cellWidth__size <= NMAX && 1 <= p->rows__size && p->rows__size <= RMAX \
   && __CPROVER_is_fresh(p->rows_, sizeof(Row) * p->rows__size) && __CPROVER_is_fresh(p->rowFirstCell_, sizeof(int) * p->rows__size) && __CPROVER_is_fresh(p->rowLastCell_, sizeof(int) * p->rows__size) \
   && __CPROVER_is_fresh(p->cellWidth_, sizeof(int) * p->cellWidth__size) && __CPROVER_is_fresh(p->cellPred_, sizeof(int) * p->cellWidth__size) && __CPROVER_is_fresh(p->cellNext_, sizeof(int) * p->cellWidth__size) \
   && __CPROVER_is_fresh(p->cellRow_, sizeof(int) * p->cellWidth__size) && __CPROVER_is_fresh(p->cellX_, sizeof(int) * p->cellWidth__size) && __CPROVER_is_fresh(p->cellY_, sizeof(int) * p->cellWidth__size) \
   && __CPROVER_is_fresh(p->cellOrientation_, sizeof(CellOrientation) * p->cellWidth__size) && __CPROVER_is_fresh(p->cellRowPolarity_, sizeof(CellRowPolarity) * p->cellWidth__size))
/* the site after `pred` in `row`: from the end of pred (or the row start) to the next cell (or the row end) */
static int site_lo(const DetailedPlacement *p, int row, int pred) { return pred == -1 ? p->rows_[row].minX : p->cellX_[pred] + p->cellWidth_[pred]; }
static int site_hi(const DetailedPlacement *p, int row, int pred) { int nx = pred == -1 ? p->rowFirstCell_[row] : p->cellNext_[pred]; return nx == -1 ? p->rows_[row].maxX : p->cellX_[nx]; }
static bool compatible(const DetailedPlacement *p, int c, int row) { return spec_orientation_in_row(p->cellRowPolarity_[c], p->rows_[row].orientation) != CellOrientation_INVALID; }
#define SITE_PRE(p, c, row, pred) (0 <= c && c < p->cellWidth__size && 0 <= row && row < p->rows__size && (pred == -1 || (0 <= pred && pred < p->cellWidth__size && p->cellRow_[pred] == row)) \
   && INV_at(p, c) && INV_at(p, pred) && RINV_at(p, row) && INV_at(p, pred == -1 ? p->rowFirstCell_[row] : dp_nxt(p, pred)) && p->cellRow_[c] != -1)

#ifdef H_CANINSERT
bool spec_canInsert(const DetailedPlacement *this, int c, int row, int pred)
__CPROVER_requires(DP_FRESH(this) && verif_exc == 0 && SITE_PRE(this, c, row, pred))
/* feasible exactly when it is a real move, the site is at least as wide as the cell, and the cell's polarity admits the row (C04) */
__CPROVER_ensures(!verif_exc && __CPROVER_return_value == (c != pred && !(this->cellRow_[c] == row && this->cellPred_[c] == pred) && site_hi(this, row, pred) - site_lo(this, row, pred) >= this->cellWidth_[c] && compatible(this, c, row)))
__CPROVER_assigns(verif_exc)
{ return DetailedPlacement_canInsert(this, c, row, pred); }
#endif
#ifdef H_POSINSERT
int spec_positionOnInsert(const DetailedPlacement *this, int c, int row, int pred)
__CPROVER_requires(DP_FRESH(this) && verif_exc == 0 && SITE_PRE(this, c, row, pred))
__CPROVER_requires(site_hi(this, row, pred) - site_lo(this, row, pred) >= this->cellWidth_[c])
/* the computed position puts the cell inside the destination site, on the destination row */
__CPROVER_ensures(site_lo(this, row, pred) <= __CPROVER_return_value && __CPROVER_return_value + this->cellWidth_[c] <= site_hi(this, row, pred))
__CPROVER_assigns(verif_exc)
{ Point p = DetailedPlacement_positionOnInsert(this, c, row, pred); __CPROVER_assert(p.y == this->rows_[row].minY, "spec: the insertion position is on the destination row"); return p.x; }
#endif
#define SWAP_PRE(p, c1, c2) (0 <= c1 && c1 < p->cellWidth__size && 0 <= c2 && c2 < p->cellWidth__size && INV_at(p, c1) && INV_at(p, c2) && p->cellRow_[c1] != -1 && p->cellRow_[c2] != -1 \
   && INV_at(p, dp_prv(p, c1)) && INV_at(p, dp_nxt(p, c1)) && INV_at(p, dp_prv(p, c2)) && INV_at(p, dp_nxt(p, c2)))
static int gap_lo(const DetailedPlacement *p, int c) { int pr = p->cellPred_[c]; return pr == -1 ? p->rows_[p->cellRow_[c]].minX : p->cellX_[pr] + p->cellWidth_[pr]; }
static int gap_hi(const DetailedPlacement *p, int c) { int nx = p->cellNext_[c]; return nx == -1 ? p->rows_[p->cellRow_[c]].maxX : p->cellX_[nx]; }
#ifdef H_CANSWAP
bool spec_canSwap(const DetailedPlacement *this, int c1, int c2)
__CPROVER_requires(DP_FRESH(this) && verif_exc == 0 && SWAP_PRE(this, c1, c2))
/* feasible exactly when the cells differ, each polarity admits the other's row (C04), and either they are neighbours or each fits the other's gap */
__CPROVER_ensures(!verif_exc && __CPROVER_return_value == (c1 != c2 && compatible(this, c1, this->cellRow_[c2]) && compatible(this, c2, this->cellRow_[c1])
    && (this->cellPred_[c1] == c2 || this->cellPred_[c2] == c1 || (gap_hi(this, c2) - gap_lo(this, c2) >= this->cellWidth_[c1] && gap_hi(this, c1) - gap_lo(this, c1) >= this->cellWidth_[c2]))))
__CPROVER_assigns(verif_exc)
{ return DetailedPlacement_canSwap(this, c1, c2); }
#endif
#ifdef H_POSSWAP
int g_x1, g_x2;
void spec_positionsOnSwap(const DetailedPlacement *this, int c1, int c2)
__CPROVER_requires(DP_FRESH(this) && verif_exc == 0 && SWAP_PRE(this, c1, c2) && c1 != c2)
__CPROVER_requires(this->cellPred_[c1] == c2 || this->cellPred_[c2] == c1 || (gap_hi(this, c2) - gap_lo(this, c2) >= this->cellWidth_[c1] && gap_hi(this, c1) - gap_lo(this, c1) >= this->cellWidth_[c2]))
/* non-adjacent: each cell is centred inside the other's gap; adjacent: the pair keeps its combined span in the exchanged order */
__CPROVER_ensures((this->cellPred_[c1] != c2 && this->cellPred_[c2] != c1) ==> (gap_lo(this, c2) <= g_x1 && g_x1 + this->cellWidth_[c1] <= gap_hi(this, c2) && gap_lo(this, c1) <= g_x2 && g_x2 + this->cellWidth_[c2] <= gap_hi(this, c1)))
__CPROVER_ensures(this->cellPred_[c1] == c2 ==> (g_x1 == this->cellX_[c2] && g_x2 == g_x1 + this->cellWidth_[c1] && g_x2 + this->cellWidth_[c2] <= gap_hi(this, c1)))
__CPROVER_ensures(this->cellPred_[c2] == c1 ==> (g_x2 == this->cellX_[c1] && g_x1 == g_x2 + this->cellWidth_[c2] && g_x1 + this->cellWidth_[c1] <= gap_hi(this, c2)))
__CPROVER_assigns(verif_exc, g_x1, g_x2)
{ Pair_Point_Point pp = DetailedPlacement_positionsOnSwap(this, c1, c2); g_x1 = pp.first.x; g_x2 = pp.second.x;
  __CPROVER_assert(pp.first.y == this->cellY_[c2] && pp.second.y == this->cellY_[c1], "spec: the cells exchange rows"); }
#endif

void harness(void) {
  DetailedPlacement *t; int a, b, c;
#if defined(H_CANINSERT)
  spec_canInsert(t, a, b, c);
#elif defined(H_POSINSERT)
  spec_positionOnInsert(t, a, b, c);
#elif defined(H_CANSWAP)
  spec_canSwap(t, a, b);
#else
  spec_positionsOnSwap(t, a, b);
#endif
  REACH("end");
}
