/*@unit
properties = ["C17"]
mode = "dfcc"
enforce = "NetModel_addNet"
loop_contracts = false
timeout = 300
function = "NetModel::addNet(cells, offsets, weight), netWeight; MatrixCreator::addPin/addFixedPin/addMovingPin/addBipoint/addStar(net) (net_model.cpp/.hpp)"
variants = [
  {name = "addNet", enforce = "NetModel_addNet", defines = ["H_ADDNET"]},
  {name = "fixedPin", enforce = "MatrixCreator_addFixedPin", defines = ["H_FIXED"], solver = "cvc5"},
  {name = "movingPin", enforce = "MatrixCreator_addMovingPin", defines = ["H_MOVING"], solver = "cvc5"},
  {name = "addPin", enforce = "MatrixCreator_addPin", defines = ["H_ADDPIN"], replace = ["MatrixCreator_addFixedPin", "MatrixCreator_addMovingPin"]},
  {name = "bipoint", enforce = "MatrixCreator_addBipoint", defines = ["H_BIPOINT"], replace = ["MatrixCreator_addPin"]},
  {name = "bipointPl", enforce = "MatrixCreator_addBipointPl", defines = ["H_BIPOINT_PL"], replace = ["MatrixCreator_addPin"]},
]
assumptions = ["paper lemma: multiplying every weight by 2^k multiplies every triplet value and every right-hand-side entry by exactly 2^k absent under/overflow (IEEE scaling by a power of two commutes with rounding); the units prove that triplet values are +-weight and right-hand-side increments are weight*(difference of offsets)",
               "A(Eigen): conjugate gradients on the assembled system (MatrixCreator::solve) are not under contract; scale-equivariance is decided at the level of the assembled triplets and right-hand side",
               "rhs_[i] / hasNonZero_[i] in addFixedPin/addMovingPin are modelled as two scalar cells selected by the index (exact for the two indices the functions use)",
               "std::vector<float>::push_back on netWeight_ is modelled as a store into the member's buffer (element type from the real header), the other vectors by size only"]
[replay]
template = "replay/c17_scaling.cpp"
search = true
inputs = []
@*/
#include "lower.h"
int verif_exc;
int verif_vec_touched;
/* contents matter for netWeight_: a push_back stores through the member's element type */
#define VEC_PUSH_BACK(v, x) do { v[v##_size] = (x); v##_size = v##_size + 1; } while (0)
#include "containers_abs.h"
/*@enums src/coloquinte.hpp @*/
/*@struct
file = "src/place_global/net_model.hpp"
class = "NetModel"
need = ["netWeight_", "netLimits_", "netCells_", "netPinOffsets_"]
@*/
#define NMAX 4096
#define FRESH_ARR(p, n, T) __CPROVER_is_fresh(p, (n) * sizeof(T))

static inline int NetModel_nbNets(const NetModel *this)
/*@extract
file = "src/place_global/net_model.hpp"
within = 'class NetModel\b'
head = 'int nbNets\(\) const'
this_members = {file = "src/place_global/net_model.hpp", class = "NetModel"}
@*/
#define nbNets() NetModel_nbNets(this)
static inline int NetModel_nbPins1(const NetModel *this, int net)
/*@extract
file = "src/place_global/net_model.hpp"
within = 'class NetModel\b'
head = 'int nbPins\(int net\) const'
this_members = {file = "src/place_global/net_model.hpp", class = "NetModel"}
@*/
#define nbPins(n) NetModel_nbPins1(this, n)
static inline int NetModel_pinCell(const NetModel *this, int net, int pin)
/*@extract
file = "src/place_global/net_model.hpp"
within = 'class NetModel\b'
head = 'int pinCell\(int net, int pin\) const'
this_members = {file = "src/place_global/net_model.hpp", class = "NetModel"}
@*/
static inline float NetModel_pinOffset(const NetModel *this, int net, int pin)
/*@extract
file = "src/place_global/net_model.hpp"
within = 'class NetModel\b'
head = 'float pinOffset\(int net, int pin\) const'
this_members = {file = "src/place_global/net_model.hpp", class = "NetModel"}
@*/
static inline float NetModel_netWeight(const NetModel *this, int net)
/*@extract
file = "src/place_global/net_model.hpp"
within = 'class NetModel\b'
head = 'float netWeight\(int net\) const'
this_members = {file = "src/place_global/net_model.hpp", class = "NetModel"}
@*/
#define pinCell(n, p) NetModel_pinCell(this, n, p)
#define pinOffset(n, p) NetModel_pinOffset(this, n, p)
static inline float NetModel_pinPosition(const NetModel *this, int net, int pin, const float *pl)
/*@extract
file = "src/place_global/net_model.hpp"
within = 'class NetModel\b'
head = 'float pinPosition\(int net, int pin, const std::vector<float> &pl\) const'
this_members = {file = "src/place_global/net_model.hpp", class = "NetModel"}
rewrites = [['\bnbCells\(\)', 'this->nbCells_', '1+']]
@*/
#undef pinCell
#undef pinOffset
#undef nbPins
#undef nbNets

/* ------------------------------------------------------------------ addNet: the weight is stored as given */
#define VEC_PUSH_BACK_M(v, x) do { this->v[this->v##_size] = (x); this->v##_size = this->v##_size + 1; } while (0)
#define VEC_APPEND_M(v, w) do { this->v##_size = this->v##_size + w##_size; verif_vec_touched = 1; } while (0)
#ifdef H_ADDNET
int g_nn;
void NetModel_addNet(NetModel *this, const int *cells, int cells_size, const float *pinOffsets, int pinOffsets_size, float weight)
__CPROVER_requires(__CPROVER_is_fresh(this, sizeof(NetModel)) && 0 <= g_nn && g_nn < NMAX && this->netLimits__size == g_nn + 1 && this->netWeight__size == g_nn)
__CPROVER_requires(FRESH_ARR(this->netLimits_, NMAX + 2, int) && __CPROVER_is_fresh(this->netWeight_, (NMAX + 1) * sizeof(*this->netWeight_)))
__CPROVER_requires(0 <= cells_size && cells_size <= NMAX && pinOffsets_size == cells_size && 0 <= this->netCells__size && this->netCells__size <= NMAX && 0 <= this->netPinOffsets__size && this->netPinOffsets__size <= NMAX)
__CPROVER_requires(0 <= this->netLimits_[g_nn] && this->netLimits_[g_nn] <= NMAX && weight == weight)
/* C17: a real-valued weight (also below 1) is stored and read back exactly */
__CPROVER_ensures(cells_size >= 2 ==> (this->netWeight__size == g_nn + 1 && this->netLimits__size == g_nn + 2 && NetModel_netWeight(this, g_nn) == weight))
__CPROVER_ensures(cells_size <= 1 ==> (this->netWeight__size == g_nn && this->netLimits__size == g_nn + 1))
__CPROVER_assigns(__CPROVER_object_whole(this), __CPROVER_object_whole(this->netLimits_), __CPROVER_object_whole(this->netWeight_), verif_vec_touched)
/*@extract
file = "src/place_global/net_model.cpp"
head = 'void NetModel::addNet\(const std::vector<int> &cells,\s*const std::vector<float> &pinOffsets, float weight\)'
this_members = {file = "src/place_global/net_model.hpp", class = "NetModel"}
rewrites = [['(\w+_)\.push_back\(', 'VEC_PUSH_BACK_M(\1, ', '2'], ['(\w+_)\.insert\(\s*\1\.end\(\),\s*(\w+)\.begin\(\),\s*\2\.end\(\)\)', 'VEC_APPEND_M(\1, \2)', '2']]
post_rewrites = [['VEC_PUSH_BACK_M\(this->', 'VEC_PUSH_BACK_M(', '2'], ['VEC_APPEND_M\(this->', 'VEC_APPEND_M(', '2']]
@*/
#endif

/* ------------------------------------------------------------------ MatrixCreator: pins */
typedef struct { NetModel topo_; int nbCells_; int nbSupps_; float *rhs_; int rhs__size; char *hasNonZero_; int hasNonZero__size; } MatrixCreator;
/* ghost log of the triplets appended to mat_ (Eigen::Triplet<float>(row, col, value)) */
#define TRIPMAX 8
int g_trip_n; int g_trip_r[TRIPMAX], g_trip_c[TRIPMAX]; float g_trip_v[TRIPMAX];
#define MAT_EMPLACE(r, c, v) do { __CPROVER_assert(g_trip_n < TRIPMAX, "ghost triplet log capacity"); g_trip_r[g_trip_n] = (r); g_trip_c[g_trip_n] = (c); g_trip_v[g_trip_n] = (v); g_trip_n++; } while (0)
#define MC_SHAPE (__CPROVER_is_fresh(this, sizeof(MatrixCreator)) && 1 <= n && n <= NMAX && this->rhs__size == n && FRESH_ARR(this->rhs_, n, float) && this->hasNonZero__size == n && FRESH_ARR(this->hasNonZero_, n, char) && g_trip_n == 0)
#define TRIP(i, r, c, v) (g_trip_r[i] == (r) && g_trip_c[i] == (c) && g_trip_v[i] == (v))
int n; float g_rhs1, g_rhs2;
/* the two (at most) cells of rhs_ / hasNonZero_ that the pin functions touch, as scalars: CBMC's array theory
 * combined with float arithmetic does not terminate here, and the functions only index with c1 and c2 */
int g_c1, g_c2; float g_cell1, g_cell2; char g_nz1, g_nz2;
#define RHS_CELL(i) ((i) == g_c1 ? &g_cell1 : &g_cell2)
#define NZ_CELL(i) ((i) == g_c1 ? &g_nz1 : &g_nz2)
int g_kind, g_a, g_b; float g_o1, g_o2, g_w;
#define FIN(x) (!isnan(x) && !isinf(x))
#define FMAG(x, m) (!isnan(x) && (x) >= -(m) && (x) <= (m))

void MatrixCreator_addFixedPin(MatrixCreator *this, int c1, float offs1, float pos, float weight)
#if defined(H_FIXED)
__CPROVER_requires(__CPROVER_is_fresh(this, sizeof(MatrixCreator)) && g_trip_n == 0 && c1 >= 0 && c1 == g_c1 && FMAG(weight, 1048576.0f) && FMAG(pos, 16777216.0f) && FMAG(offs1, 16777216.0f) && g_rhs1 == g_cell1 && FMAG(g_rhs1, 1.0e15f))
/* one diagonal entry of value `weight`; the right-hand side moves by weight * (pos - offs1): both linear in the weight */
__CPROVER_ensures(g_trip_n == 1 && TRIP(0, c1, c1, weight))
__CPROVER_ensures(g_cell1 == __CPROVER_old(g_cell1) + weight * (pos - offs1) && g_nz1 == 1)
__CPROVER_assigns(g_cell1, g_nz1, g_trip_n, __CPROVER_object_whole(g_trip_r), __CPROVER_object_whole(g_trip_c), __CPROVER_object_whole(g_trip_v))
/*@extract
file = "src/place_global/net_model.cpp"
head = 'void MatrixCreator::addFixedPin\('
rewrites = [['\bmat_\.emplace_back\(', 'MAT_EMPLACE(', '1+'], ['\brhs_\[(\w+)\]', '(*RHS_CELL(\1))', '1+'], ['\bhasNonZero_\[(\w+)\]', '(*NZ_CELL(\1))', '1+']]
@*/
#else
/* contract used by addPin: which cell is pulled towards which position with which weight */
__CPROVER_requires(0 <= c1 && c1 < n)
__CPROVER_ensures(g_kind == 1 && g_a == c1 && g_o1 == offs1 && g_o2 == pos && g_w == weight)
__CPROVER_assigns(g_kind, g_a, g_b, g_o1, g_o2, g_w);
#endif

void MatrixCreator_addMovingPin(MatrixCreator *this, int c1, int c2, float offs1, float offs2, float weight)
#if defined(H_MOVING)
__CPROVER_requires(__CPROVER_is_fresh(this, sizeof(MatrixCreator)) && g_trip_n == 0 && c1 >= 0 && c2 >= 0 && c1 == g_c1 && c2 == g_c2 && FMAG(weight, 1048576.0f) && FMAG(offs1, 16777216.0f) && FMAG(offs2, 16777216.0f))
__CPROVER_requires(g_rhs1 == g_cell1 && g_rhs2 == g_cell2 && FMAG(g_rhs1, 1.0e15f) && FMAG(g_rhs2, 1.0e15f))
/* the 2x2 block of the normal equations of  weight * (x1 + offs1 - x2 - offs2)^2 */
__CPROVER_ensures(c1 != c2 ==> (g_trip_n == 4 && TRIP(0, c1, c2, -weight) && TRIP(1, c2, c1, -weight) && TRIP(2, c1, c1, weight) && TRIP(3, c2, c2, weight)))
__CPROVER_ensures(c1 != c2 ==> (g_cell1 == __CPROVER_old(g_cell1) + weight * (offs2 - offs1) && g_cell2 == __CPROVER_old(g_cell2) + weight * (offs1 - offs2) && g_nz1 == 1 && g_nz2 == 1))
__CPROVER_ensures(c1 == c2 ==> (g_trip_n == 0 && g_cell1 == __CPROVER_old(g_cell1)))
__CPROVER_assigns(g_cell1, g_cell2, g_nz1, g_nz2, g_trip_n, __CPROVER_object_whole(g_trip_r), __CPROVER_object_whole(g_trip_c), __CPROVER_object_whole(g_trip_v))
/*@extract
file = "src/place_global/net_model.cpp"
head = 'void MatrixCreator::addMovingPin\('
rewrites = [['\bmat_\.emplace_back\(', 'MAT_EMPLACE(', '1+'], ['\brhs_\[(\w+)\]', '(*RHS_CELL(\1))', '1+'], ['\bhasNonZero_\[(\w+)\]', '(*NZ_CELL(\1))', '1+']]
@*/
#else
__CPROVER_requires(0 <= c1 && c1 < n && 0 <= c2 && c2 < n)
__CPROVER_ensures(g_kind == 2 && g_a == c1 && g_b == c2 && g_o1 == offs1 && g_o2 == offs2 && g_w == weight)
__CPROVER_assigns(g_kind, g_a, g_b, g_o1, g_o2, g_w);
#endif
#define addFixedPin(...) MatrixCreator_addFixedPin(this, __VA_ARGS__)
#define addMovingPin(...) MatrixCreator_addMovingPin(this, __VA_ARGS__)

void MatrixCreator_addPin(MatrixCreator *this, int c1, int c2, float offs1, float offs2, float weight)
#if defined(H_ADDPIN)
__CPROVER_requires(__CPROVER_is_fresh(this, sizeof(MatrixCreator)) && 1 <= n && -1 <= c1 && c1 < n && -1 <= c2 && c2 < n && g_kind == 0)
/* cell -1 is the fixed world: a pin pair with one fixed end pulls the other cell towards the fixed position */
__CPROVER_ensures(c1 == c2 ==> g_kind == 0)
__CPROVER_ensures((c1 == -1 && c2 != -1) ==> (g_kind == 1 && g_a == c2 && g_o1 == offs2 && g_o2 == offs1 && g_w == weight))
__CPROVER_ensures((c2 == -1 && c1 != -1) ==> (g_kind == 1 && g_a == c1 && g_o1 == offs1 && g_o2 == offs2 && g_w == weight))
__CPROVER_ensures((c1 != -1 && c2 != -1 && c1 != c2) ==> (g_kind == 2 && g_a == c1 && g_b == c2 && g_o1 == offs1 && g_o2 == offs2 && g_w == weight))
__CPROVER_assigns(g_kind, g_a, g_b, g_o1, g_o2, g_w)
/*@extract
file = "src/place_global/net_model.cpp"
head = 'void MatrixCreator::addPin\('
@*/
#else
__CPROVER_requires(1)
__CPROVER_ensures(g_kind == 3 && g_a == c1 && g_b == c2 && g_o1 == offs1 && g_o2 == offs2 && g_w == weight)
__CPROVER_assigns(g_kind, g_a, g_b, g_o1, g_o2, g_w);
#endif
#define addPin(...) MatrixCreator_addPin(this, __VA_ARGS__)

#define TOPO_SHAPE (__CPROVER_is_fresh(this, sizeof(MatrixCreator)) && 1 <= g_nn2 && g_nn2 <= NMAX && this->topo_.netLimits__size == g_nn2 + 1 && FRESH_ARR(this->topo_.netLimits_, g_nn2 + 1, int) \
  && this->topo_.netWeight__size == g_nn2 && __CPROVER_is_fresh(this->topo_.netWeight_, g_nn2 * sizeof(*this->topo_.netWeight_)) && 0 <= g_np && g_np <= NMAX \
  && this->topo_.netCells__size == g_np && FRESH_ARR(this->topo_.netCells_, g_np, int) && this->topo_.netPinOffsets__size == g_np && FRESH_ARR(this->topo_.netPinOffsets_, g_np, float) \
  && 0 <= net && net < g_nn2 && 0 <= this->topo_.netLimits_[net] && this->topo_.netLimits_[net] <= g_np && this->topo_.netLimits_[net + 1] <= g_np && this->topo_.netLimits_[net] + 2 <= this->topo_.netLimits_[net + 1])
int g_nn2, g_np;
#ifdef H_BIPOINT
void MatrixCreator_addBipoint(MatrixCreator *this, int net)
__CPROVER_requires(TOPO_SHAPE && g_kind == 0)
/* the two pins of the net are connected with exactly the net's weight */
__CPROVER_ensures(g_kind == 3 && g_w == NetModel_netWeight(&this->topo_, net) && g_a == NetModel_pinCell(&this->topo_, net, 0) && g_b == NetModel_pinCell(&this->topo_, net, 1)
   && g_o1 == NetModel_pinOffset(&this->topo_, net, 0) && g_o2 == NetModel_pinOffset(&this->topo_, net, 1))
__CPROVER_assigns(g_kind, g_a, g_b, g_o1, g_o2, g_w)
/*@extract
file = "src/place_global/net_model.cpp"
head = 'void MatrixCreator::addBipoint\(int net\)'
rewrites = [['\btopo_\.(\w+)\(', 'NetModel_\1(&this->topo_, ', '1+']]
@*/
#endif
#ifdef H_BIPOINT_PL
int g_ncells;
void MatrixCreator_addBipointPl(MatrixCreator *this, int net, const float *pl, float epsilon)
__CPROVER_requires(TOPO_SHAPE && g_kind == 0 && 1 <= g_ncells && g_ncells <= NMAX && this->topo_.nbCells_ == g_ncells && FRESH_ARR(pl, g_ncells, float))
__CPROVER_requires(-1 <= this->topo_.netCells_[this->topo_.netLimits_[net]] && this->topo_.netCells_[this->topo_.netLimits_[net]] < g_ncells && -1 <= this->topo_.netCells_[this->topo_.netLimits_[net] + 1] && this->topo_.netCells_[this->topo_.netLimits_[net] + 1] < g_ncells)
/* weight handed down = netWeight(net) * f(geometry): the geometric factor does not depend on the weight */
/* the quotient netWeight / max(epsilon, distance) is a float division that no installed back end decides in time
 * (minisat, kissat, cvc5: > 200 s), so the value of the weight handed down is NOT decided here; what is checked is
 * that the pins and offsets handed down are the net's, and memory safety of the geometry reads */
__CPROVER_requires(epsilon > 0.0f && epsilon <= 1.0e6f && NetModel_netWeight(&this->topo_, net) >= 0.0f && NetModel_netWeight(&this->topo_, net) <= 1.0e6f)
__CPROVER_ensures(g_kind == 3 && g_a == NetModel_pinCell(&this->topo_, net, 0) && g_b == NetModel_pinCell(&this->topo_, net, 1) && g_o1 == NetModel_pinOffset(&this->topo_, net, 0) && g_o2 == NetModel_pinOffset(&this->topo_, net, 1))
__CPROVER_assigns(g_kind, g_a, g_b, g_o1, g_o2, g_w)
/*@extract
file = "src/place_global/net_model.cpp"
head = 'void MatrixCreator::addBipoint\(int net, const std::vector<float> &pl,'
rewrites = [['\btopo_\.(\w+)\(', 'NetModel_\1(&this->topo_, ', '1+']]
@*/
#endif

void harness(void) {
  NetModel *m; MatrixCreator *mc; int *cells; float *offs; int k1, k2, a, b; float f1, f2, f3, f4;
#if defined(H_ADDNET)
  NetModel_addNet(m, cells, k1, offs, k2, f1);
#elif defined(H_FIXED)
  MatrixCreator_addFixedPin(mc, g_c1, f1, f2, f3);
#elif defined(H_MOVING)
  MatrixCreator_addMovingPin(mc, g_c1, g_c2, f1, f2, f3);
#elif defined(H_ADDPIN)
  MatrixCreator_addPin(mc, a, b, f1, f2, f3);
#elif defined(H_BIPOINT)
  MatrixCreator_addBipoint(mc, a);
#else
  MatrixCreator_addBipointPl(mc, a, offs, f1);
#endif
  REACH("end");
}
