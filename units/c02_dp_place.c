/*@unit
properties = ["C02", "C04"]
mode = "dfcc"
enforce = "DetailedPlacement_place"
loop_contracts = false
timeout = 900
memory_gb = 12
solver = "kissat"
function = "DetailedPlacement::place, DetailedPlacement::unplace (detailed_placement.cpp)"
variants = [
  {name = "place", safety_tier = "thorough", enforce = "DetailedPlacement_place", defines = ["H_PLACE"]},
  {name = "unplace", safety_tier = "thorough", enforce = "DetailedPlacement_unplace", defines = ["H_UNPLACE"]},
]
assumptions = ["chain lemma (paper): the local invariant LWF(k) for every cell k and RWF(r) for every row r implies global legality of the rows (cells of a row lie on one chain from rowFirstCell_, ordered, disjoint, inside the row) because widths are positive",
               "the universally quantified invariant is instantiated at the indices the function touches (precondition INV_inst_*); postconditions hold at an arbitrary ghost cell and ghost row"]
[replay]
template = "replay/c02_detailed_history.cpp"
search = true
inputs = []
@*/
#include "lower.h"
int verif_exc;
/*@include units/inc/detailed_placement.inc @*/
#define NMAX 1000
#define RMAX 100
int ghost_g, ghost_r;   /* universally quantified ghost indices (left nondeterministic by the harness) */

#define DP_FRESH(p) (__CPROVER_is_fresh(p, sizeof(*p)) && 1 <= p->cellWidth__size && p->cellWidth__size <= NMAX && 1 <= p->rows__size && p->rows__size <= RMAX \
   && __CPROVER_is_fresh(p->rows_, sizeof(Row) * p->rows__size) && __CPROVER_is_fresh(p->rowFirstCell_, sizeof(int) * p->rows__size) && __CPROVER_is_fresh(p->rowLastCell_, sizeof(int) * p->rows__size) \
   && __CPROVER_is_fresh(p->cellWidth_, sizeof(int) * p->cellWidth__size) && __CPROVER_is_fresh(p->cellPred_, sizeof(int) * p->cellWidth__size) && __CPROVER_is_fresh(p->cellNext_, sizeof(int) * p->cellWidth__size) \
   && __CPROVER_is_fresh(p->cellRow_, sizeof(int) * p->cellWidth__size) && __CPROVER_is_fresh(p->cellX_, sizeof(int) * p->cellWidth__size) && __CPROVER_is_fresh(p->cellY_, sizeof(int) * p->cellWidth__size) \
   && __CPROVER_is_fresh(p->cellOrientation_, sizeof(CellOrientation) * p->cellWidth__size) && __CPROVER_is_fresh(p->cellRowPolarity_, sizeof(CellRowPolarity) * p->cellWidth__size))

static bool INV_inst_place(const DetailedPlacement *p, int c, int row, int pred) {
  int g = ghost_g, gr = ghost_r;
  if (!(0 <= g && g < p->cellWidth__size && 0 <= gr && gr < p->rows__size)) return false;
  int oldnext = pred == -1 ? p->rowFirstCell_[row] : p->cellNext_[pred];
  return INV_lite(p, c) && INV_lite(p, g) && INV_lite(p, pred) && RWF(p, row) && ROWMAG(p, row) && RWF(p, gr)
    && INV_lite(p, oldnext) && INV_lite(p, p->cellPred_[g]) && INV_lite(p, p->cellNext_[g]) && INV_lite(p, p->rowFirstCell_[gr]) && INV_lite(p, p->rowLastCell_[gr]);
}
static bool INV_inst_unplace(const DetailedPlacement *p, int c) {
  int g = ghost_g, gr = ghost_r;
  if (!(0 <= g && g < p->cellWidth__size && 0 <= gr && gr < p->rows__size)) return false;
  return INV_lite(p, c) && INV_lite(p, g) && INV_lite(p, p->cellPred_[c]) && INV_lite(p, p->cellNext_[c]) && RWF(p, gr)
    && INV_lite(p, p->cellPred_[g]) && INV_lite(p, p->cellNext_[g]) && INV_lite(p, p->rowFirstCell_[gr]) && INV_lite(p, p->rowLastCell_[gr]);
}

#ifdef H_PLACE
int g_oldx, g_oldy, g_oldrow; CellOrientation g_oldo;
void DetailedPlacement_place(DetailedPlacement *this, int c, int row, int pred, int x)
__CPROVER_requires(DP_FRESH(this) && verif_exc == 0)
__CPROVER_requires(0 <= c && c < this->cellWidth__size && 0 <= row && row < this->rows__size && (pred == -1 || (0 <= pred && pred < this->cellWidth__size)))
__CPROVER_requires(this->cellWidth_[c] > 0)
__CPROVER_requires(pred == -1 || this->cellRow_[pred] == row)
__CPROVER_requires(x >= -DP_LIM && x <= DP_LIM)
__CPROVER_requires(INV_inst_place(this, c, row, pred))
__CPROVER_requires(g_oldx == this->cellX_[ghost_g] && g_oldy == this->cellY_[ghost_g] && g_oldrow == this->cellRow_[ghost_g] && g_oldo == this->cellOrientation_[ghost_g])
/* refused (throws) and nothing changes when the cell is already placed, the site does not admit it, or its polarity forbids the row */
__CPROVER_ensures(verif_exc ==> (this->cellRow_[ghost_g] == g_oldrow && this->cellX_[ghost_g] == g_oldx && this->cellY_[ghost_g] == g_oldy && this->cellOrientation_[ghost_g] == g_oldo))
__CPROVER_ensures((__CPROVER_old(this->cellRow_[c]) != -1 || spec_orientation_in_row(this->cellRowPolarity_[c], this->rows_[row].orientation) == CellOrientation_INVALID) ==> verif_exc)
/* C02: every cell and every row is locally well-formed afterwards; C04 (inside LWF): the placed cell has exactly the orientation its polarity prescribes for the row, never INVALID */
__CPROVER_ensures(LWF(this, ghost_g))
__CPROVER_ensures(RWF(this, ghost_r))
__CPROVER_ensures(!verif_exc ==> (this->cellRow_[c] == row && this->cellX_[c] == x && this->cellPred_[c] == pred && this->cellY_[c] == this->rows_[row].minY))
/* cells other than c neither move nor turn; a cell without polarity keeps its orientation */
__CPROVER_ensures(ghost_g != c ==> (this->cellX_[ghost_g] == g_oldx && this->cellY_[ghost_g] == g_oldy && this->cellRow_[ghost_g] == g_oldrow && this->cellOrientation_[ghost_g] == g_oldo))
__CPROVER_ensures((ghost_g == c && this->cellRowPolarity_[c] == CellRowPolarity_ANY) ==> this->cellOrientation_[c] == g_oldo)
__CPROVER_assigns(verif_exc, this->cellRow_[c], this->cellOrientation_[c], this->cellPred_[c], this->cellNext_[c], this->cellX_[c], this->cellY_[c], this->rowFirstCell_[row], this->rowLastCell_[row], __CPROVER_object_whole(this->cellNext_), __CPROVER_object_whole(this->cellPred_))
/*@extract
file = "src/place_detailed/detailed_placement.cpp"
head = 'void DetailedPlacement::place\(int c, int row, int pred, int x\)'
this_members = {file = "src/place_detailed/detailed_placement.hpp", class = "DetailedPlacement"}
@*/
#endif

#ifdef H_UNPLACE
int g_oldx, g_oldy, g_oldrow; CellOrientation g_oldo;
void DetailedPlacement_unplace(DetailedPlacement *this, int c)
__CPROVER_requires(DP_FRESH(this) && verif_exc == 0)
__CPROVER_requires(0 <= c && c < this->cellWidth__size && this->cellRow_[c] != -1)
__CPROVER_requires(INV_inst_unplace(this, c))
__CPROVER_requires(g_oldx == this->cellX_[ghost_g] && g_oldy == this->cellY_[ghost_g] && g_oldrow == this->cellRow_[ghost_g] && g_oldo == this->cellOrientation_[ghost_g])
__CPROVER_ensures(!verif_exc && LWF(this, ghost_g) && RWF(this, ghost_r))
__CPROVER_ensures(this->cellRow_[c] == -1 && this->cellPred_[c] == -1 && this->cellNext_[c] == -1)
/* no coordinate or orientation changes; only c leaves its row */
__CPROVER_ensures(this->cellX_[ghost_g] == g_oldx && this->cellY_[ghost_g] == g_oldy && this->cellOrientation_[ghost_g] == g_oldo && (ghost_g == c || this->cellRow_[ghost_g] == g_oldrow))
__CPROVER_assigns(this->cellRow_[c], __CPROVER_object_whole(this->cellNext_), __CPROVER_object_whole(this->cellPred_), __CPROVER_object_whole(this->rowFirstCell_), __CPROVER_object_whole(this->rowLastCell_))
/*@extract
file = "src/place_detailed/detailed_placement.cpp"
head = 'void DetailedPlacement::unplace\(int c\)'
this_members = {file = "src/place_detailed/detailed_placement.hpp", class = "DetailedPlacement"}
@*/
#endif

void harness(void) {
  DetailedPlacement *t; int c, row, pred, x;
#ifdef H_PLACE
  DetailedPlacement_place(t, c, row, pred, x);
#else
  DetailedPlacement_unplace(t, c);
#endif
  REACH("end");
}
