/*@unit
properties = ["C09"]
mode = "dfcc"
enforce = "IncrNetModel_xTopologySubset"
timeout = 600
solver = "kissat"
function = "IncrNetModel::xTopology(circuit, cells), IncrNetModel::yTopology(circuit, cells), buildCellMapping (incr_net_model.cpp): EVERY net of the circuit becomes a net of the incremental model (same index), each pin on a cell of the subset keeps its cell (renumbered) and offset, and all other pins are folded into two pins on the pseudo fixed cell at their exact min / max position - so the half-perimeter of the model net equals that of the circuit net"
variants = [
  {name = "x", enforce = "IncrNetModel_xTopologySubset", defines = ["H_X"]},
  {name = "y", enforce = "IncrNetModel_yTopologySubset", defines = ["H_Y"]},
  {name = "mapping", enforce = "buildCellMapping", defines = ["H_MAP"], solver = "minisat"},
]
assumptions = ["std::unordered_map<int,int> cellMap is represented by a ghost array g_map (value or -1): count(c) = (g_map[c] >= 0), operator[](c) = g_map[c] (read) / g_map[c] = v (write in buildCellMapping); variant mapping proves that buildCellMapping makes it the inverse of `cells`",
               "local vectors cells/offsets/cellX are represented by their length and the entries of ghost indices; IncrNetModelBuilder::addNet / build are recorded, their own bodies are unit c09_incr_model",
               "pin offsets come from a ghost array (their geometric correctness: unit c09_pin_offsets)",
               "that the recorded facts imply equality of half-perimeters (min/max over a set = min/max over a partition of it) is a paper step"]
@*/
#include "lower.h"
int verif_exc;
/*@include units/inc/circuit.inc @*/
/*@include units/inc/circuit_off.inc @*/
#define NMAX 2048
int nc, nn, np, nsub;
int *g_map;                 /* ghost model of cellMap */
#define MAP_COUNT(c) (g_map[c] >= 0 ? 1u : 0u)
#define MAP_AT(c) (g_map[c])

int *g_off;                 /* ghost: oriented pin offset per pin along the axis at hand */
#define Circuit_pinOffset(c, n, j) (g_off[(c)->netLimits_[n] + (j)])
int g_n;                    /* ghost net */
int g_q;                    /* ghost pin of the ghost net */
int g_c, g_c_cell;          /* ghost index into the subset (or nsub for the pseudo fixed cell) and the cell there */
int verif_j;                /* ghost phase marker: pin index while the pins are scanned, -1 after */
/* recorded facts */
int g_nadds, g_added, g_ncells;                       /* addNet calls so far, calls for the ghost net, its pin count */
int g_nmapped;                                        /* pins of the ghost net that are on cells of the subset */
bool g_any_fixed; int g_min_seen, g_max_seen;         /* pins of the ghost net outside the subset and their extreme positions */
int g_fcnt, g_fc0, g_fo0, g_fc1, g_fo1;               /* pins pushed after the scan (pseudo fixed cell) */
bool g_q_seen, g_q_mapped, g_q_pushed; int g_q_mapcell, g_q_off, g_q_pos, g_q_cell, g_q_offset;
int g_cpos; int g_built_size;
#define CELLS_PUSH(c) do { if (i == g_n) { if (verif_j >= 0) { if (verif_j == g_q) g_q_cell = (c); } else { if (g_fcnt == 0) g_fc0 = (c); else g_fc1 = (c); } } cells_size++; } while (0)
#define OFFSETS_PUSH(v) do { if (i == g_n) { if (verif_j >= 0) { if (verif_j == g_q) { g_q_pushed = 1; g_q_offset = (v); } } else { if (g_fcnt == 0) g_fo0 = (v); else g_fo1 = (v); g_fcnt++; } } offsets_size++; } while (0)
#define CELLPOS_PUSH(vsz, v) do { if ((vsz) == g_c) g_cpos = (v); (vsz)++; } while (0)
#define ADDNET(csz, osz, net) do { __CPROVER_assert((csz) == (osz), "spec: addNet gets as many offsets as cells"); if ((net) == g_n) { g_added++; g_ncells = (csz); } g_nadds++; } while (0)
int g_np_n;                /* ghost: number of pins of the ghost net */
#define INIT_G (g_added == 0 && !g_any_fixed && !g_q_seen && !g_q_pushed && g_nmapped == 0 && g_fcnt == 0)
#define POST_G (g_added == 1 && 0 <= g_nmapped && g_nmapped <= NMAX && 0 <= g_fcnt && g_fcnt <= 2 && g_ncells == g_nmapped + g_fcnt \
  && (g_any_fixed ? (g_fcnt == (g_min_seen != g_max_seen ? 2 : 1) && g_fc0 == nsub && g_fo0 == g_min_seen && (g_fcnt == 2 ==> (g_fc1 == nsub && g_fo1 == g_max_seen))) : g_fcnt == 0) \
  && (g_q_seen ==> (g_q_mapped ? (g_q_pushed && g_q_cell == g_q_mapcell && g_q_offset == g_q_off) : (g_any_fixed && g_min_seen <= g_q_pos && g_q_pos <= g_max_seen))) \
  && (g_q < g_np_n ==> g_q_seen))
#define GHOSTS_IN g_nmapped, g_any_fixed, g_min_seen, g_max_seen, g_q_seen, g_q_mapped, g_q_mapcell, g_q_off, g_q_pos, g_q_pushed, g_q_cell, g_q_offset
#define TOPO_CONTRACT(POSARR) \
__CPROVER_requires(__CPROVER_is_fresh(circuit_p, sizeof(Circuit)) && verif_exc == 0 && 1 <= nc && nc <= NMAX && 1 <= nn && nn <= NMAX && 0 <= np && np <= NMAX && 0 <= nsub && nsub <= NMAX && cells_size == nsub) \
__CPROVER_requires(CFRESH(circuit_p, cellWidth_, nc, int) && CFRESH(circuit_p, cellX_, nc, int) && CFRESH(circuit_p, cellY_, nc, int) && CFRESH(circuit_p, netLimits_, nn + 1, int) && CFRESH(circuit_p, pinCells_, np, int)) \
__CPROVER_requires(__CPROVER_is_fresh(g_off, np * sizeof(int)) && __CPROVER_is_fresh(g_map, nc * sizeof(int)) && __CPROVER_is_fresh(cells, nsub * sizeof(int))) \
__CPROVER_requires(circuit_p->netLimits_[0] == 0 && circuit_p->netLimits_[nn] == np && 0 <= g_n && g_n < nn && 0 <= g_q && g_q <= NMAX && 0 <= circuit_p->netLimits_[g_n] && circuit_p->netLimits_[g_n] <= circuit_p->netLimits_[g_n + 1] && circuit_p->netLimits_[g_n + 1] <= np && g_np_n == circuit_p->netLimits_[g_n + 1] - circuit_p->netLimits_[g_n] && INIT_G && g_nadds == 0 && verif_j == -1) \
__CPROVER_requires(0 <= g_c && g_c <= nsub && (g_c < nsub ==> (g_c_cell == cells[g_c] && 0 <= g_c_cell && g_c_cell < nc))) \
/* C09: every net is added, in order (net k of the model is net k of the circuit) */ \
__CPROVER_ensures(!verif_exc ==> g_nadds == nn) \
/* C09: pins of the ghost net: subset pins keep (renumbered cell, offset); the others are summarised by their exact extremes on the pseudo fixed cell nsub */ \
__CPROVER_ensures(!verif_exc ==> POST_G) \
/* C09: the initial positions handed to the model are the circuit's, plus 0 for the pseudo fixed cell */ \
__CPROVER_ensures(!verif_exc ==> (g_built_size == nsub + 1 && (g_c < nsub ? g_cpos == circuit_p->POSARR[g_c_cell] : g_cpos == 0))) \
__CPROVER_assigns(verif_exc, verif_j, g_nadds, g_added, g_ncells, g_fcnt, g_fc0, g_fo0, g_fc1, g_fo1, g_cpos, g_built_size, GHOSTS_IN)

#ifdef H_X
void IncrNetModel_xTopologySubset(const Circuit *circuit_p, const int *cells, int cells_size)
TOPO_CONTRACT(cellX_)
/*@extract
file = "src/place_detailed/incr_net_model.cpp"
head = 'IncrNetModel IncrNetModel::xTopology\(const Circuit &circuit,\s*const std::vector<int> &cells\)'
nloops = 3
rewrites = [['std::unordered_map<int, int> cellMap = buildCellMapping\(circuit, cells\);', '/* cellMap: ghost array g_map (contract of buildCellMapping, variant mapping) */', '1'],
            ['std::vector<int> (cell[XY]);\s*\1\.reserve\([^;]*\);', 'int \1_size = 0;', '1'],
            ['\b(cell[XY])\.push_back\(([^;]*)\);', 'CELLPOS_PUSH(\1_size, \2);', '1+'],
            ['IncrNetModelBuilder ret\(([^;]*)\);', 'int ret_nbCells = (int)(\1);', '1'],
            ['std::vector<int> cells;\s*std::vector<int> offsets;', 'int cells_size = 0; int offsets_size = 0;', '1'],
            ['cellMap\.count\((\w+)\)', 'MAP_COUNT(\1)', '*'], ['cellMap\[(\w+)\]', 'MAP_AT(\1)', '*'],
            ['cells\.push_back\(([^;]*)\);', 'CELLS_PUSH(\1);', '1+'], ['offsets\.push_back\(([^;]*)\);', 'OFFSETS_PUSH(\1);', '1+'],
            ['ret\.addNet\(cells, offsets\);', 'ADDNET(cells_size, offsets_size, i);', '1+'],
            ['return ret\.build\((cell[XY])\);', 'g_built_size = \1_size; return;', '1'],
            ['\bcircuit\.(nbNets|nbCells)\(\)', 'Circuit_\1(circuit_p)', '1+'],
            ['\bcircuit\.pin[XY]Offset\(', 'Circuit_pinOffset(circuit_p, ', '1+'],
            ['\bcircuit\.(nbPinsNet|pinCell|x|y)\(', 'Circuit_\1(circuit_p, ', '3+']]
[[loops]]
ordinal = 1
contract = """
__CPROVER_assigns(_i_c, cellX_size, g_cpos)
__CPROVER_loop_invariant(0 <= _i_c && _i_c <= cells_size && cellX_size == _i_c && (g_c < _i_c ==> g_cpos == circuit_p->cellX_[g_c_cell]))
__CPROVER_decreases(cells_size - _i_c)
"""
[[loops]]
ordinal = 2
contract = """
__CPROVER_assigns(i, verif_exc, verif_j, g_nadds, g_added, g_ncells, g_fcnt, g_fc0, g_fo0, g_fc1, g_fo1, GHOSTS_IN)
__CPROVER_loop_invariant(0 <= i && i <= nn && verif_exc == 0 && g_nadds == i && verif_j == -1)
__CPROVER_loop_invariant(g_n >= i ==> INIT_G)
__CPROVER_loop_invariant(g_n < i ==> POST_G)
__CPROVER_decreases(nn - i)
"""
[[loops]]
ordinal = 3
contract = """
__CPROVER_assigns(j, verif_j, minFixed, maxFixed, hasFixed, cells_size, offsets_size, GHOSTS_IN)
__CPROVER_loop_invariant(0 <= j && j <= g_hi - g_lo && 0 <= cells_size && cells_size <= j && offsets_size == cells_size && verif_j == j - 1 && (i == g_n ==> g_fcnt == 0))
__CPROVER_loop_invariant(i == g_n ==> (g_nmapped == cells_size && hasFixed == g_any_fixed && (g_any_fixed ? (minFixed == g_min_seen && maxFixed == g_max_seen && minFixed <= maxFixed && minFixed >= -8388608 && maxFixed <= 8388608) : (minFixed == INT_MAX && maxFixed == INT_MIN))))
__CPROVER_loop_invariant(i == g_n ==> (g_q_seen == (g_q < j) && (g_q_seen ==> (g_q_mapped ? (g_q_pushed && g_q_cell == g_q_mapcell && g_q_offset == g_q_off) : (g_any_fixed && g_min_seen <= g_q_pos && g_q_pos <= g_max_seen)))))
__CPROVER_loop_invariant(i != g_n ==> (g_nmapped == s_nmapped && g_any_fixed == s_any_fixed && g_min_seen == s_min_seen && g_max_seen == s_max_seen && g_q_seen == s_q_seen && g_q_mapped == s_q_mapped && g_q_mapcell == s_q_mapcell && g_q_off == s_q_off && g_q_pos == s_q_pos && g_q_pushed == s_q_pushed && g_q_cell == s_q_cell && g_q_offset == s_q_offset))
__CPROVER_decreases(g_hi - g_lo - j)
"""
[[ghosts]]
after = 'int c = cells\[_i_c\];'
text = """__CPROVER_assume(0 <= c && c < nc); /* INSTANTIATE precondition: the subset holds valid cells */"""
[[ghosts]]
at = 'body_start:2'
text = """GHOST(const int g_lo = circuit_p->netLimits_[i]; const int g_hi = circuit_p->netLimits_[i + 1]; const int s_nmapped = g_nmapped; const bool s_any_fixed = g_any_fixed; const int s_min_seen = g_min_seen; const int s_max_seen = g_max_seen; const bool s_q_seen = g_q_seen; const bool s_q_mapped = g_q_mapped; const int s_q_mapcell = g_q_mapcell; const int s_q_off = g_q_off; const int s_q_pos = g_q_pos; const bool s_q_pushed = g_q_pushed; const int s_q_cell = g_q_cell; const int s_q_offset = g_q_offset;) __CPROVER_assume(0 <= g_lo && g_lo <= g_hi && g_hi <= np); /* INSTANTIATE P(net) */"""
[[ghosts]]
at = 'body_start:3'
text = """GHOST(verif_j = j;)"""
[[ghosts]]
at = 'after:3'
text = """GHOST(verif_j = -1;)"""
[[ghosts]]
after = 'int offset = Circuit_pinOffset\(circuit_p, i, j\);'
text = """__CPROVER_assume(0 <= cell && cell < nc); GHOST(const int g_cp = circuit_p->cellX_[cell]; const int g_o = g_off[g_lo + j]; const int g_m = g_map[cell];) __CPROVER_assume(MAGV(g_cp) && MAGV(g_o) && g_m >= -1); /* INSTANTIATE P(pin), MAG */
GHOST(if (i == g_n) { if (j == g_q) { g_q_seen = 1; g_q_mapped = (g_m >= 0); g_q_mapcell = g_m; g_q_off = g_o; g_q_pos = g_cp + g_o; } if (g_m >= 0) g_nmapped++; else { if (!g_any_fixed || g_cp + g_o < g_min_seen) g_min_seen = g_cp + g_o; if (!g_any_fixed || g_cp + g_o > g_max_seen) g_max_seen = g_cp + g_o; g_any_fixed = 1; } })"""
@*/
void harness(void) { const Circuit *c; const int *cells; int n; IncrNetModel_xTopologySubset(c, cells, n); REACH("end"); }
#endif

#ifdef H_Y
void IncrNetModel_yTopologySubset(const Circuit *circuit_p, const int *cells, int cells_size)
TOPO_CONTRACT(cellY_)
/*@extract
file = "src/place_detailed/incr_net_model.cpp"
head = 'IncrNetModel IncrNetModel::yTopology\(const Circuit &circuit,\s*const std::vector<int> &cells\)'
nloops = 3
rewrites = [['std::unordered_map<int, int> cellMap = buildCellMapping\(circuit, cells\);', '/* cellMap: ghost array g_map (contract of buildCellMapping, variant mapping) */', '1'],
            ['std::vector<int> (cell[XY]);\s*\1\.reserve\([^;]*\);', 'int \1_size = 0;', '1'],
            ['\b(cell[XY])\.push_back\(([^;]*)\);', 'CELLPOS_PUSH(\1_size, \2);', '1+'],
            ['IncrNetModelBuilder ret\(([^;]*)\);', 'int ret_nbCells = (int)(\1);', '1'],
            ['std::vector<int> cells;\s*std::vector<int> offsets;', 'int cells_size = 0; int offsets_size = 0;', '1'],
            ['cellMap\.count\((\w+)\)', 'MAP_COUNT(\1)', '*'], ['cellMap\[(\w+)\]', 'MAP_AT(\1)', '*'],
            ['cells\.push_back\(([^;]*)\);', 'CELLS_PUSH(\1);', '1+'], ['offsets\.push_back\(([^;]*)\);', 'OFFSETS_PUSH(\1);', '1+'],
            ['ret\.addNet\(cells, offsets\);', 'ADDNET(cells_size, offsets_size, i);', '1+'],
            ['return ret\.build\((cell[XY])\);', 'g_built_size = \1_size; return;', '1'],
            ['\bcircuit\.(nbNets|nbCells)\(\)', 'Circuit_\1(circuit_p)', '1+'],
            ['\bcircuit\.pin[XY]Offset\(', 'Circuit_pinOffset(circuit_p, ', '1+'],
            ['\bcircuit\.(nbPinsNet|pinCell|x|y)\(', 'Circuit_\1(circuit_p, ', '3+']]
[[loops]]
ordinal = 1
contract = """
__CPROVER_assigns(_i_c, cellY_size, g_cpos)
__CPROVER_loop_invariant(0 <= _i_c && _i_c <= cells_size && cellY_size == _i_c && (g_c < _i_c ==> g_cpos == circuit_p->cellY_[g_c_cell]))
__CPROVER_decreases(cells_size - _i_c)
"""
[[loops]]
ordinal = 2
contract = """
__CPROVER_assigns(i, verif_exc, verif_j, g_nadds, g_added, g_ncells, g_fcnt, g_fc0, g_fo0, g_fc1, g_fo1, GHOSTS_IN)
__CPROVER_loop_invariant(0 <= i && i <= nn && verif_exc == 0 && g_nadds == i && verif_j == -1)
__CPROVER_loop_invariant(g_n >= i ==> INIT_G)
__CPROVER_loop_invariant(g_n < i ==> POST_G)
__CPROVER_decreases(nn - i)
"""
[[loops]]
ordinal = 3
contract = """
__CPROVER_assigns(j, verif_j, minFixed, maxFixed, hasFixed, cells_size, offsets_size, GHOSTS_IN)
__CPROVER_loop_invariant(0 <= j && j <= g_hi - g_lo && 0 <= cells_size && cells_size <= j && offsets_size == cells_size && verif_j == j - 1 && (i == g_n ==> g_fcnt == 0))
__CPROVER_loop_invariant(i == g_n ==> (g_nmapped == cells_size && hasFixed == g_any_fixed && (g_any_fixed ? (minFixed == g_min_seen && maxFixed == g_max_seen && minFixed <= maxFixed && minFixed >= -8388608 && maxFixed <= 8388608) : (minFixed == INT_MAX && maxFixed == INT_MIN))))
__CPROVER_loop_invariant(i == g_n ==> (g_q_seen == (g_q < j) && (g_q_seen ==> (g_q_mapped ? (g_q_pushed && g_q_cell == g_q_mapcell && g_q_offset == g_q_off) : (g_any_fixed && g_min_seen <= g_q_pos && g_q_pos <= g_max_seen)))))
__CPROVER_loop_invariant(i != g_n ==> (g_nmapped == s_nmapped && g_any_fixed == s_any_fixed && g_min_seen == s_min_seen && g_max_seen == s_max_seen && g_q_seen == s_q_seen && g_q_mapped == s_q_mapped && g_q_mapcell == s_q_mapcell && g_q_off == s_q_off && g_q_pos == s_q_pos && g_q_pushed == s_q_pushed && g_q_cell == s_q_cell && g_q_offset == s_q_offset))
__CPROVER_decreases(g_hi - g_lo - j)
"""
[[ghosts]]
after = 'int c = cells\[_i_c\];'
text = """__CPROVER_assume(0 <= c && c < nc); /* INSTANTIATE precondition: the subset holds valid cells */"""
[[ghosts]]
at = 'body_start:2'
text = """GHOST(const int g_lo = circuit_p->netLimits_[i]; const int g_hi = circuit_p->netLimits_[i + 1]; const int s_nmapped = g_nmapped; const bool s_any_fixed = g_any_fixed; const int s_min_seen = g_min_seen; const int s_max_seen = g_max_seen; const bool s_q_seen = g_q_seen; const bool s_q_mapped = g_q_mapped; const int s_q_mapcell = g_q_mapcell; const int s_q_off = g_q_off; const int s_q_pos = g_q_pos; const bool s_q_pushed = g_q_pushed; const int s_q_cell = g_q_cell; const int s_q_offset = g_q_offset;) __CPROVER_assume(0 <= g_lo && g_lo <= g_hi && g_hi <= np); /* INSTANTIATE P(net) */"""
[[ghosts]]
at = 'body_start:3'
text = """GHOST(verif_j = j;)"""
[[ghosts]]
at = 'after:3'
text = """GHOST(verif_j = -1;)"""
[[ghosts]]
after = 'int offset = Circuit_pinOffset\(circuit_p, i, j\);'
text = """__CPROVER_assume(0 <= cell && cell < nc); GHOST(const int g_cp = circuit_p->cellY_[cell]; const int g_o = g_off[g_lo + j]; const int g_m = g_map[cell];) __CPROVER_assume(MAGV(g_cp) && MAGV(g_o) && g_m >= -1); /* INSTANTIATE P(pin), MAG */
GHOST(if (i == g_n) { if (j == g_q) { g_q_seen = 1; g_q_mapped = (g_m >= 0); g_q_mapcell = g_m; g_q_off = g_o; g_q_pos = g_cp + g_o; } if (g_m >= 0) g_nmapped++; else { if (!g_any_fixed || g_cp + g_o < g_min_seen) g_min_seen = g_cp + g_o; if (!g_any_fixed || g_cp + g_o > g_max_seen) g_max_seen = g_cp + g_o; g_any_fixed = 1; } })"""
@*/
void harness(void) { const Circuit *c; const int *cells; int n; IncrNetModel_yTopologySubset(c, cells, n); REACH("end"); }
#endif

#ifdef H_MAP
int g_cc, g_ci;   /* ghost cell, ghost index */
int g_nset;       /* ghost: number of distinct keys written */
#define MAP_SET(c, v) do { if (g_map[c] < 0) g_nset++; g_map[c] = (v); } while (0)
#define MAP_SIZE() ((size_t)g_nset)
void buildCellMapping(const Circuit *circuit_p, const int *cells, int cells_size)
__CPROVER_requires(__CPROVER_is_fresh(circuit_p, sizeof(Circuit)) && 1 <= nc && nc <= NMAX && 0 <= cells_size && cells_size <= NMAX && CFRESH(circuit_p, cellWidth_, nc, int))
__CPROVER_requires(__CPROVER_is_fresh(g_map, nc * sizeof(int)) && __CPROVER_is_fresh(cells, cells_size * sizeof(int)) && g_nset == 0)
__CPROVER_requires(0 <= g_cc && g_cc < nc && g_map[g_cc] == -1 && 0 <= g_ci && g_ci < cells_size)
/* the map sends a cell of the subset to ITS index (cells are distinct: the repository asserts it through the map size) and knows no other cell */
__CPROVER_ensures(g_map[g_cc] >= 0 ==> (g_map[g_cc] < cells_size && cells[g_map[g_cc]] == g_cc))
__CPROVER_ensures(g_map[g_cc] < 0 ==> cells[g_ci] != g_cc)
__CPROVER_assigns(g_nset, __CPROVER_object_whole(g_map))
/*@extract
file = "src/place_detailed/incr_net_model.cpp"
head = 'std::unordered_map<int, int> buildCellMapping\(const Circuit &circuit,\s*const std::vector<int> &cells\)'
nloops = 1
rewrites = [['std::unordered_map<int, int> cellMap;', '/* cellMap: ghost array g_map, initially all -1 (instantiated at the keys touched) */', '1'],
            ['cellMap\[(\w+)\] = ([^;]*);', 'MAP_SET(\1, \2);', '1'],
            ['cellMap\.size\(\)', 'MAP_SIZE()', '*'],
            ['return cellMap;', 'return;', '1'],
            ['\bcircuit\.(nbNets|nbCells)\(\)', 'Circuit_\1(circuit_p)', '*']]
[[loops]]
ordinal = 1
contract = """
__CPROVER_assigns(i, g_nset, __CPROVER_object_whole(g_map))
__CPROVER_loop_invariant(i <= (size_t)cells_size && (size_t)g_nset == i && (g_map[g_cc] >= 0 ? (g_map[g_cc] < (int)i && cells[g_map[g_cc]] == g_cc) : (g_ci >= (int)i || cells[g_ci] != g_cc)))
__CPROVER_decreases((size_t)cells_size - i)
"""
[[ghosts]]
after = 'int c = cells\[i\];'
text = """__CPROVER_assume(0 <= c && c < nc && g_map[c] < 0); /* INSTANTIATE precondition: the subset holds valid, pairwise distinct cells (asserted by the repository), in the form `the key of step i was not written before` */"""
@*/
void harness(void) { const Circuit *c; const int *cells; int n; buildCellMapping(c, cells, n); REACH("end"); }
#endif
