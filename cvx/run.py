"""goto-cc / goto-instrument (DFCC) / cbmc pipeline for one generated unit variant."""
import json
import os
import re
import resource
import signal
import subprocess
import time

SAFETY_CLASSES = {'overflow', 'array_bounds', 'pointer_dereference', 'pointer_arithmetic', 'pointer_primitives',
                  'division-by-zero', 'conversion', 'NaN', 'undefined-shift', 'float-overflow', 'enum-range',
                  'bit_count', 'pointer', 'float_overflow', 'memory-leak', 'unwind'}


INSTRUMENTATION_CLASSES = {'single_top_level_call', 'no_alloc_dealloc_in_requires', 'no_alloc_dealloc_in_ensures',
                           'no_recursive_call'}


class Undecided(Exception):
    def __init__(self, reason, detail=''):
        Exception.__init__(self, reason)
        self.reason = reason
        self.detail = detail


def _limits(mem_gb):
    def f():
        os.setsid()
        try:
            # die with the checker: an interrupted bin/check must not leave solvers behind
            import ctypes
            ctypes.CDLL('libc.so.6', use_errno=True).prctl(1, signal.SIGKILL)
        except Exception:
            pass
        b = int(mem_gb * (1 << 30))
        resource.setrlimit(resource.RLIMIT_AS, (b, b))
    return f


def _group_cpu(pgid):
    """CPU seconds (user + system) consumed so far by the live processes of one process group"""
    tot = 0
    tck = os.sysconf('SC_CLK_TCK')
    for d in os.listdir('/proc'):
        if not d.isdigit():
            continue
        try:
            st = open('/proc/%s/stat' % d).read()
            rest = st[st.rindex(')') + 2:].split()
            # fields after the command: state ppid pgrp ... utime(11) stime(12) cutime(13) cstime(14)
            if int(rest[2]) != pgid:
                continue
            tot += int(rest[11]) + int(rest[12]) + int(rest[13]) + int(rest[14])
        except (OSError, ValueError, IndexError):
            continue
    return tot / float(tck)


WALL_FACTOR = 8
STALL_SECONDS = 600


def sh(cmd, timeout, mem_gb, cwd, env=None, stdout_path=None):
    """the time limit is a limit on CPU seconds of the process group (robust against an oversubscribed machine);
    wall time is capped at WALL_FACTOR x the limit as a safety net"""
    t0 = time.time()
    e = dict(os.environ)
    e['TMPDIR'] = cwd
    if env:
        e.update(env)
    out = open(stdout_path, 'wb') if stdout_path else subprocess.PIPE
    p = subprocess.Popen(cmd, cwd=cwd, env=e, stdout=out, stderr=subprocess.PIPE if stdout_path else subprocess.STDOUT,
                         preexec_fn=_limits(mem_gb))
    o = er = None
    expired = False
    stalled = False
    peak = 0.0
    last_progress = time.time()
    while True:
        try:
            o, er = p.communicate(timeout=2)
            break
        except subprocess.TimeoutExpired:
            cpu = _group_cpu(p.pid)
            if cpu > peak + 0.5:
                last_progress = time.time()
            peak = max(peak, cpu)
            if time.time() - last_progress > STALL_SECONDS:
                # no CPU consumed for a long time: e.g. cbmc waiting for an external solver that died
                stalled = True
            if stalled or peak > timeout or time.time() - t0 > WALL_FACTOR * timeout:
                expired = True
                try:
                    os.killpg(p.pid, signal.SIGKILL)
                except ProcessLookupError:
                    pass
                p.wait()
                break
    if expired and stalled:
        if stdout_path:
            out.close()
        raise Undecided('tool-error', '%s made no progress for %ds (an external solver process may have died); killed' % (cmd[0], STALL_SECONDS))
    if expired:
        if stdout_path:
            out.close()
        raise Undecided('timeout', '%s after %ds of CPU time (wall %ds)' % (cmd[0], timeout, time.time() - t0))
    if stdout_path:
        out.close()
        text = (er or b'').decode(errors='replace')
    else:
        text = (o or b'').decode(errors='replace')
    return p.returncode, text, time.time() - t0


def classify(prop_name, desc):
    """obligation class from the CBMC property name and description"""
    if desc.startswith('reach:'):
        return 'reach'
    if desc.startswith('repo assert') or desc.startswith('abort reachable'):
        return 'repo-assert'
    parts = prop_name.split('.')
    cls = parts[-2] if len(parts) >= 2 else 'other'
    if cls in INSTRUMENTATION_CLASSES:
        return 'instrumentation'
    if cls == 'assertion' and desc.startswith('bounded:'):
        return 'bounded'
    if cls == 'loop_decreases' or 'decreases' in desc.lower() and cls.startswith('loop'):
        return 'decreases'
    return cls


def is_safety(cls):
    return cls in SAFETY_CLASSES or cls in ('repo-assert', 'decreases')


def parse_results(path, unit_file_names):
    try:
        d = json.load(open(path))
    except Exception as ex:
        raise Undecided('tool-error', 'cbmc output is not JSON: %s' % ex)
    res = None
    status = None
    msgs = []
    for e in d:
        if 'result' in e:
            res = e['result']
        if 'cProverStatus' in e:
            status = e['cProverStatus']
        if e.get('messageType') in ('ERROR', 'WARNING'):
            msgs.append(e.get('messageText', ''))
    if res is None and any('out of memory' in m for m in msgs):
        raise Undecided('memory-limit', ' | '.join(msgs[-3:]))
    if res is None:
        raise Undecided('tool-error', 'no result array; status=%s; %s' % (status, ' | '.join(msgs[-5:])))
    obs = []
    for r in res:
        loc = r.get('sourceLocation', {})
        f = loc.get('file', '')
        own = (not f.startswith('<')) and (os.path.basename(f) in unit_file_names or '/src/' in f or f.endswith('.h') or f.endswith('spec_inserted.c'))
        cls = classify(r['property'], r.get('description', ''))
        if cls == 'instrumentation':
            own = False
        # safety obligations raised inside the specification text (contract clauses, spec functions,
        # harness) are well-formedness conditions of the spec, not properties of the repo code
        if own and cls in SAFETY_CLASSES and not ('/src/' in f):
            cls = 'spec-wellformed'
        ob = {'name': r['property'], 'class': cls, 'description': r.get('description', ''),
              'file': f, 'line': int(loc['line']) if loc.get('line') else None, 'function': loc.get('function'),
              'status': r['status'], 'own': own}
        if 'trace' in r:
            ob['trace'] = r['trace']
        obs.append(ob)
    return obs, msgs


def trace_inputs(trace, wanted=None):
    """last value assigned to each named variable in the trace (harness-level nondet inputs first)"""
    vals = {}
    for s in trace:
        if s.get('stepType') != 'assignment':
            continue
        lhs = s.get('lhs')
        if not lhs or lhs.startswith('__') or 'dfcc' in lhs:
            continue
        v = s.get('value', {})
        data = v.get('data')
        if data is None:
            continue
        fn = s.get('sourceLocation', {}).get('function')
        key = lhs
        if wanted is not None and key not in wanted:
            continue
        vals.setdefault(key, []).append({'value': data, 'function': fn, 'line': s.get('sourceLocation', {}).get('line')})
    return vals


def run_variant(unit, variant, gen_c, workdir, prelude, solver='kissat', extra_defines=()):
    """returns dict(obligations=[...], seconds=..., cmds=[...]) or raises Undecided"""
    meta = unit
    name = '%s.%s' % (meta['name'], variant['name'])
    entry = meta.get('entry', 'harness')
    timeout = int(meta.get('timeout', 300))
    mem = float(meta.get('memory_gb', 8))
    defs = ['-DCOLOQUINTE_VERIF', '-DVARIANT_%s' % variant['name']]
    defs += ['-D' + d for d in meta.get('defines', [])] + ['-D' + d for d in variant.get('defines', [])] + list(extra_defines)
    a = os.path.join(workdir, name + '.a.gb')
    b = os.path.join(workdir, name + '.b.gb')
    cmds = []
    t0 = time.time()
    cmd = ['goto-cc', '-I', prelude, '-I', os.path.dirname(gen_c)] + defs + ['--function', entry, gen_c, '-o', a]
    cmds.append(' '.join(cmd))
    rc, out, _ = sh(cmd, 120, mem, workdir)
    if rc != 0:
        m = re.search(r'#error extraction broke: (.*)', out)
        raise Undecided('extraction-broke', m.group(1) if m else 'goto-cc failed (the extracted text no longer compiles as C):\n' + out[-3000:])
    if meta.get('mode', 'dfcc') == 'dfcc':
        repl = list(meta.get('replace', []) + variant.get('replace', []))
        while True:
            cmd = ['goto-instrument', '--dfcc', entry, '--enforce-contract', variant.get('enforce', meta.get('enforce'))]
            for r in repl:
                cmd += ['--replace-call-with-contract', r]
            if meta.get('loop_contracts', True):
                cmd += ['--apply-loop-contracts']
            cmd += [a, b]
            rc, out, _ = sh(cmd, 300, mem, workdir)
            # a callee that the (possibly edited) body no longer calls cannot be replaced: drop it and retry
            mm = re.search(r"Function to replace '(\w+)' not found", out)
            if rc != 0 and mm and mm.group(1) in repl:
                repl.remove(mm.group(1))
                continue
            break
        cmds.append(' '.join(cmd))
        if rc != 0:
            raise Undecided('tool-error', 'goto-instrument failed:\n' + out[-3000:])
        if 'not side-effect free' in out or 'ignoring' in out.lower() and 'loop' in out.lower():
            raise Undecided('tool-error', 'goto-instrument dropped a contract:\n' + out[-3000:])
    else:
        b = a
    cmd = ['cbmc', b, '--json-ui'] + meta.get('cbmc_flags', []) + variant.get('cbmc_flags', [])
    if meta.get('unwind'):
        cmd += ['--unwind', str(meta['unwind']), '--unwinding-assertions']
    if meta.get('object_bits'):
        cmd += ['--object-bits', str(meta['object_bits'])]
    if solver == 'kissat':
        cmd += ['--external-sat-solver', 'kissat']
    elif solver in ('cvc5', 'z3'):
        cmd += ['--' + solver]
    if meta.get('mode', 'dfcc') != 'dfcc':
        cmd += ['--no-malloc-may-fail'] if '--malloc-may-fail' not in cmd else []
    cmds.append(' '.join(cmd))
    outp = os.path.join(workdir, name + '.json')
    if variant.get('split', meta.get('split')):
        # one solver query per contract obligation, one per class for the rest (same program, same flags):
        # SMT back ends decide each float obligation in seconds but not their disjunction
        obs, msgs, secs = run_split(cmd, b, name, workdir, timeout, mem, {os.path.basename(gen_c)})
        cmds[-1] += '   # split: one query per contract obligation (--property <name>), one per class otherwise'
        return finish_variant(obs, msgs, cmd, name, workdir, timeout, mem, {os.path.basename(gen_c)}, meta, secs, t0, cmds, solver, None)
    rc, err, secs = sh(cmd, timeout, mem, workdir, stdout_path=outp)
    if rc not in (0, 10) and not meta.get('object_bits'):
        try:
            if 'too many addressed objects' in open(outp).read()[-4000:]:
                # default pointer encoding (2^8 objects) is much faster; widen only when a body needs it
                cmd += ['--object-bits', '12']
                cmds[-1] = ' '.join(cmd)
                rc, err, secs = sh(cmd, timeout, mem, workdir, stdout_path=outp)
        except OSError:
            pass
    if rc not in (0, 10):
        tail = ''
        try:
            tail = open(outp).read()[-1500:]
        except Exception:
            pass
        if rc < 0 or 'bad_alloc' in err or 'bad_alloc' in tail or 'Out of memory' in tail:
            raise Undecided('memory-limit', 'cbmc rc=%s %s' % (rc, err[-500:]))
        raise Undecided('tool-error', 'cbmc rc=%s\n%s\n%s' % (rc, err[-1500:], tail))
    names = {os.path.basename(gen_c)}
    obs, msgs = parse_results(outp, names)
    return finish_variant(obs, msgs, cmd, name, workdir, timeout, mem, names, meta, secs, t0, cmds, solver, outp)


SPLIT_SINGLE = re.compile(r'\.(postcondition|precondition|loop_invariant_base|loop_invariant_step|assertion)\.\d+$')


def run_split(cmd, b, name, workdir, timeout, mem, names):
    import concurrent.futures as cf
    t0 = time.time()
    lp = os.path.join(workdir, name + '.props.json')
    rc, err, _ = sh(['cbmc', b, '--show-properties', '--json-ui'], 120, mem, workdir, stdout_path=lp)
    try:
        props = [p['name'] for e in json.load(open(lp)) if 'properties' in e for p in e['properties']]
    except Exception as ex:
        raise Undecided('tool-error', 'cannot list properties: %s' % ex)
    if not props:
        raise Undecided('tool-error', 'no properties listed')
    groups = {}
    for pn in props:
        key = pn if SPLIT_SINGLE.search(pn) else re.sub(r'\.\d+$', '', pn)
        groups.setdefault(key, []).append(pn)
    deadline = t0 + timeout

    def one(item):
        k, (key, pl) = item
        left = deadline - time.time()
        if left <= 1:
            raise Undecided('timeout', 'cbmc (split) after %ds' % timeout)
        op = os.path.join(workdir, '%s.split%d.json' % (name, k))
        c = list(cmd)
        for pn in pl:
            c += ['--property', pn]
        try:
            rc, err, _ = sh(c, min(left, max(60, timeout / 4)), mem, workdir, stdout_path=op)
        except Undecided as u:
            # an SMT back end that proves the valid obligations fast can be slow at FINDING a counterexample of an
            # invalid float obligation; the propositional back end is the opposite.  Same formula, other decision procedure.
            if u.reason != 'timeout' or not any(x in c for x in ('--cvc5', '--z3')):
                raise
            left = deadline - time.time()
            if left <= 1:
                raise
            c = [x for x in c if x not in ('--cvc5', '--z3')]
            rc, err, _ = sh(c, left, mem, workdir, stdout_path=op)
        if rc not in (0, 10):
            raise Undecided('tool-error', 'cbmc rc=%s on group %s\n%s' % (rc, key, err[-1000:]))
        o, m = parse_results(op, names)
        os.remove(op)
        want = set(pl)
        base = [x for x in c if x != '--property' and x not in want]
        o = [x for x in o if x['name'] in want]
        for x in o:
            x['cmd'] = base
        return o, m

    obs, msgs = [], []
    with cf.ThreadPoolExecutor(max_workers=8) as ex:
        for o, m in ex.map(one, enumerate(sorted(groups.items()))):
            obs += o
            msgs += m
    return obs, msgs, time.time() - t0


def finish_variant(obs, msgs, cmd, name, workdir, timeout, mem, names, meta, secs, t0, cmds, solver, outp):
    for m in msgs:
        if 'ignoring' in m.lower() and ('forall' in m.lower() or 'exists' in m.lower() or 'quantifier' in m.lower()):
            raise Undecided('tool-error', 'quantifier ignored by back end: ' + m)
    # traces for failed obligations (second, targeted run)
    failed = [o for o in obs if o['status'] == 'FAILURE' and o['class'] != 'reach' and o['own']]
    for o in failed[:int(meta.get('max_traces', 4))]:
        tp = os.path.join(workdir, name + '.trace.%s.json' % re.sub(r'\W', '_', o['name']))
        tcmd = o.get('cmd', cmd) + ['--trace', '--property', o['name']]
        try:
            sh(tcmd, min(timeout, 300), mem, workdir, stdout_path=tp)
            tobs, _ = parse_results(tp, names)
            for x in tobs:
                if x['name'] == o['name'] and 'trace' in x:
                    o['trace'] = x['trace']
        except Undecided:
            pass
    try:
        if outp:
            os.remove(outp)
    except OSError:
        pass
    return {'obligations': obs, 'seconds': secs, 'total_seconds': time.time() - t0, 'cmds': cmds, 'solver': solver}
