"""Struct layouts and enums generated on every run from the real headers
(DESIGN.md 2.3): member names and element types are never hand-written."""
import re
from .extract import scan, match_close, class_region, ExtractionBroken

SCALARS = {'int', 'bool', 'float', 'double', 'long long', 'size_t', 'unsigned', 'char', 'long',
           'std::size_t', 'unsigned int', 'std::int64_t', 'std::uint64_t', 'unsigned long long'}


def strip_comments(s):
    out = []
    last = 0
    res = []
    i = 0
    n = len(s)
    while i < n:
        if s.startswith('//', i):
            j = s.find('\n', i)
            j = n if j < 0 else j
            i = j
            continue
        if s.startswith('/*', i):
            j = s.find('*/', i)
            i = n if j < 0 else j + 2
            res.append(' ')
            continue
        res.append(s[i])
        i += 1
    return ''.join(res)


def enums(header_text):
    """{name: [(enumerator, value)]} for every `enum class` in the header"""
    src = strip_comments(header_text)
    res = {}
    for m in re.finditer(r'\benum\s+class\s+(\w+)\s*(?::\s*\w+\s*)?\{', src):
        end = match_close(src, m.end() - 1, '{', '}')
        body = src[m.end():end]
        items = []
        nxt = 0
        for it in body.split(','):
            it = it.strip()
            if not it:
                continue
            if '=' in it:
                nm, v = [x.strip() for x in it.split('=', 1)]
                val = int(v, 0)
            else:
                nm, val = it, nxt
            items.append((nm, val))
            nxt = val + 1
        res[m.group(1)] = items
    return res


def enums_c(header_text):
    out = []
    for name, items in enums(header_text).items():
        out.append('typedef enum { %s } %s;' % (', '.join('%s_%s = %d' % (name, n, v) for n, v in items), name))
    return '\n'.join(out) + '\n'


def members(header_text, cls):
    """[(cpp_type, name)] of the non-static data members of class/struct `cls`, in declaration order"""
    src = strip_comments(header_text)
    lo, hi = class_region(src, r'\b(class|struct)\s+%s\b(?!\s*;)' % re.escape(cls))
    body = src[lo + 1:hi]
    # split into depth-0 statements, dropping nested brace blocks (inline method bodies)
    stmts = []
    cur = []
    d = 0
    i = 0
    n = len(body)
    pd = 0
    while i < n:
        c = body[i]
        if c == '{':
            e = match_close(body, i, '{', '}')
            # `T x{};` style initialisers are not used in the repo; a block ends a method definition
            i = e + 1
            # was it an initialiser list / method body?  either way the statement is not a data member
            cur = []
            # swallow an optional trailing ';' (struct/enum definitions)
            while i < n and body[i].isspace():
                i += 1
            if i < n and body[i] == ';':
                i += 1
            continue
        if c == '(':
            pd += 1
        elif c == ')':
            pd -= 1
        if c == ';' and pd == 0:
            stmts.append(''.join(cur).strip())
            cur = []
        else:
            cur.append(c)
        i += 1
    res = []
    for s in stmts:
        s = re.sub(r'^\s*((public|private|protected)\s*:\s*)+', '', s).strip()
        if not s or '(' in s.split('=')[0]:
            continue
        if re.match(r'(using|friend|typedef|static|enum|class|struct|template|constexpr)\b', s):
            continue
        s = s.split('=')[0].strip()
        m = re.match(r'^(.*?)[\s&*]+(\w+)$', s)
        if not m:
            continue
        ty = ' '.join(m.group(1).split())
        ty = re.sub(r'^(mutable|const)\s+', '', ty)
        res.append((ty, m.group(2)))
    return res


def c_fields(ty, name, known):
    """C field declarations for one member, or None if the type cannot be lowered"""
    ty = ty.replace('std::size_t', 'size_t')
    if ty in SCALARS or ty in known:
        return ['%s %s;' % (ty, name)]
    m = re.match(r'^std::vector<\s*(.+?)\s*>$', ty)
    if m:
        el = m.group(1).replace('std::size_t', 'size_t')
        if el in SCALARS or el in known:
            return ['%s *%s;' % (el, name), 'int %s_size;' % name]
        m2 = re.match(r'^std::vector<\s*(.+?)\s*>$', el)
        if m2 and (m2.group(1) in SCALARS or m2.group(1) in known):
            # vector<vector<T>>: rows as pointers + per-row sizes
            return ['%s **%s;' % (m2.group(1), name), 'int *%s_rowsize;' % name, 'int %s_size;' % name]
        m3 = re.match(r'^std::pair<\s*(.+?)\s*,\s*(.+?)\s*>$', el)
        if m3 and all(t in SCALARS or t in known for t in m3.groups()):
            pt = 'Pair_%s_%s' % (re.sub(r'\W', '', m3.group(1)), re.sub(r'\W', '', m3.group(2)))
            return ['%s *%s;' % (pt, name), 'int %s_size;' % name]
    return None


def struct_c(header_text, cls, known, opaque_ok=True, cname=None, bases=()):
    """(typedef text, member name list).  Members whose type cannot be lowered become
    `OPAQUE` placeholders (a unit that uses one fails to compile => exit 2)."""
    mem = []
    for btxt, bcls in bases:
        mem += members(btxt, bcls)
    mem += members(header_text, cls)
    if not mem:
        raise ExtractionBroken('no data members found for class %s' % cls)
    lines = []
    names = []
    for ty, name in mem:
        f = c_fields(ty, name, known)
        if f is None:
            if not opaque_ok:
                raise ExtractionBroken('cannot lower member %s %s::%s' % (ty, cls, name))
            lines.append('/* opaque: %s */ char %s__opaque;' % (ty, name))
            continue
        for decl in f:
            lines.append(decl)
            names.append(re.search(r'(\w+);$', decl).group(1))
    cn = cname or cls
    txt = 'typedef struct %s {\n  %s\n} %s;\n' % (cn, '\n  '.join(lines), cn)
    return txt, names


def members_on(names):
    return ''.join('#define %s (this->%s)\n' % (n, n) for n in names)


def members_off(names):
    return ''.join('#undef %s\n' % n for n in names)
