"""bin/check driver: select the units of a property, generate them from /repo's working
tree, discharge their obligations with CBMC, account, replay, write evidence."""
import argparse
import concurrent.futures as cf
import glob
import json
import os
import re
import shutil
import sys
import threading
import time
import tomllib

from . import extract as X
from . import gen as G
from . import run as R
from . import replay as RP

VERIF = os.path.dirname(os.path.dirname(os.path.abspath(__file__)))
REPO = os.environ.get('VERIF_REPO', '/repo')
PRELUDE = os.path.join(VERIF, 'prelude')
try:
    CORES = max(2, len(os.sched_getaffinity(0)))
except Exception:
    CORES = max(2, os.cpu_count() or 4)
try:
    _kb = [int(l.split()[1]) for l in open('/proc/meminfo') if l.startswith('MemAvailable:')][0]
    TOTAL_MEM_GB = max(8, int(_kb / (1 << 20) * 0.75))
except Exception:
    TOTAL_MEM_GB = 24
# admission budget per job: the address-space cap of a job (memory_gb, default 8) is a ceiling, not what it uses
# (typical: < 1 GB); jobs that declare memory_gb are budgeted in full
DEFAULT_BUDGET_GB = 3
TIMEOUT_SCALE = float(os.environ.get('VERIF_TIMEOUT_SCALE', '3'))

TRUSTED_BASE = [
    'cbmc 6.11.0 / goto-cc / goto-instrument --dfcc (contract instrumentation) / kissat SAT solver',
    'cvx extractor+generator: brace matching, counted lexical rewrites (DESIGN.md 2.2), loop-contract attachment by ordinal',
    'prelude/*.h: lowering of std::vector to pointer+size, std::min/max/abs/round, exception lowering (VERIF_THROW + propagation), container models',
    'C semantics of the extracted text equals its C++ semantics for the admitted constructs (DESIGN.md 6.6)',
    'struct layouts and enums are generated from the real headers on every run (cvx/layout.py)',
]


def load_units():
    units = []
    for p in sorted(glob.glob(os.path.join(VERIF, 'units', '*.c'))):
        t = open(p).read()
        m = re.search(r'/\*@unit(.*?)@\*/', t, re.S)
        if not m:
            continue
        meta = tomllib.loads(m.group(1))
        meta.setdefault('name', os.path.splitext(os.path.basename(p))[0])
        meta.setdefault('properties', [])
        meta.setdefault('safety', ['C07'])
        meta.setdefault('tier', 'quick')
        meta.setdefault('variants', [{'name': 'main'}])
        meta['path'] = p
        meta['assume_sites'] = [ln.strip() for ln in t.split('\n') if '__CPROVER_assume' in ln and not ln.strip().startswith('//')]
        units.append(meta)
    return units


def load_known():
    p = os.path.join(VERIF, 'known_findings.json')
    if not os.path.exists(p):
        return {'findings': [], 'fixed': []}
    return json.load(open(p))


def load_coverage():
    p = os.path.join(VERIF, 'units', 'coverage.toml')
    if not os.path.exists(p):
        return {}
    return tomllib.load(open(p, 'rb'))


class MemGate:
    """admit jobs while the sum of their memory caps stays under TOTAL_MEM_GB and count under CORES"""

    def __init__(self):
        self.cv = threading.Condition()
        self.mem = 0.0
        self.n = 0

    def acquire(self, gb):
        with self.cv:
            while self.n > 0 and (self.mem + gb > TOTAL_MEM_GB or self.n >= CORES):
                self.cv.wait()
            self.mem += gb
            self.n += 1

    def release(self, gb):
        with self.cv:
            self.mem -= gb
            self.n -= 1
            self.cv.notify_all()


# loop invariants, callee preconditions and frames carry the safety proof as well (memory safety inside a loop body is
# established under the invariant): when one of them fails, the safety property of the unit is violated too
SUPPORTS_SAFETY = {'loop_invariant_base', 'loop_invariant_step', 'precondition', 'assigns', 'loop_assigns'}


def relevant(meta, prop, ob):
    s = R.is_safety(ob['class'])
    if prop in meta['safety'] and ob['class'] in SUPPORTS_SAFETY:
        return True
    return (prop in meta['properties'] and not s) or (prop in meta['safety'] and s)


def main(argv=None):
    ap = argparse.ArgumentParser()
    ap.add_argument('property')
    ap.add_argument('--tier', default=os.environ.get('VERIF_TIER', 'quick'), choices=['quick', 'thorough'])
    ap.add_argument('--replay')
    ap.add_argument('--unit', action='append')
    ap.add_argument('--keep', action='store_true')
    ap.add_argument('--variant', action='append')
    ap.add_argument('--solver', default='minisat')
    ap.add_argument('--no-evidence', action='store_true')
    ap.add_argument('--list', action='store_true')
    ap.add_argument('--verbose', '-v', action='store_true')
    args = ap.parse_args(argv)
    prop = args.property
    seed = int(os.environ.get('VERIF_SEED', '0') or 0)
    t0 = time.time()

    if args.replay:
        return RP.replay_file(args.replay, VERIF, REPO)

    units = load_units()
    known = load_known()
    coverage = load_coverage().get(prop, {})
    sel = [u for u in units if (prop in u['properties'] or prop in u['safety'])
           and (args.tier == 'thorough' or u['tier'] == 'quick')]
    if args.unit:
        sel = [u for u in sel if u['name'] in args.unit]
    if args.list:
        for u in sel:
            print(u['name'], u['properties'], u['safety'], u['tier'])
        return 0
    if not sel:
        print('UNDECIDED property=%s reason=no-units' % prop)
        return 2

    scratch = os.path.join(os.environ.get('VERIF_SCRATCH', '/var/tmp'), 'cvx-%s-%d' % (prop, os.getpid()))
    os.makedirs(scratch, exist_ok=True)
    gate = MemGate()
    results = []
    lock = threading.Lock()

    def job(meta, variant):
        # per-variant overrides of the unit's run parameters
        meta = dict(meta)
        for k in ('timeout', 'memory_gb', 'bounded', 'unwind', 'solver', 'object_bits', 'min_reach', 'properties'):
            if k in variant:
                meta[k] = variant[k]
        # declared timeouts are typical-time x 2..10 on an idle 16-core machine; the limit applied is CPU seconds x TIMEOUT_SCALE
        meta['timeout'] = int(int(meta.get('timeout', 300)) * TIMEOUT_SCALE)
        name = meta['name']
        wd = os.path.join(scratch, name + '.' + variant['name'])
        os.makedirs(wd, exist_ok=True)
        rec = {'unit': name, 'variant': variant['name'], 'meta': meta, 'vmeta': variant}
        mem = float(meta['memory_gb']) if 'memory_gb' in meta else DEFAULT_BUDGET_GB
        gate.acquire(mem)
        try:
            out_name = name + '.c'
            g = G.generate(meta['path'], REPO, out_name)
            gen_c = os.path.join(wd, out_name)
            open(gen_c, 'w').write(g.text)
            rec['extractions'] = g.extractions
            solver = variant.get('solver', meta.get('solver', args.solver))
            r = R.run_variant(meta, variant, gen_c, wd, PRELUDE, solver=solver)
            rec.update(r)
            if args.tier == 'thorough' and meta.get('crosscheck', True) and meta.get('tier') == 'quick' and solver in ('cvc5', 'z3'):
                rec['crosscheck'] = {'solver': None, 'skipped': 'float obligations: no second installed back end finishes (SAT and z3 4.8 time out)'}
            elif args.tier == 'thorough' and meta.get('crosscheck', True) and meta.get('tier') == 'quick':
                # cross-check with the other SAT back end (solver disagreement => undecided; a time-out of the
                # second back end is recorded and is not a failure)
                try:
                    m2 = dict(meta)
                    other = 'minisat' if solver == 'kissat' else 'kissat'
                    r2 = R.run_variant(m2, variant, gen_c, wd, PRELUDE, solver=other)
                    s1 = {o['name']: o['status'] for o in r['obligations']}
                    s2 = {o['name']: o['status'] for o in r2['obligations']}
                    rec['crosscheck'] = {'solver': other, 'seconds': r2['seconds'], 'agree': s1 == s2}
                    if s1 != s2:
                        rec['undecided'] = ('solver-disagreement', str([k for k in s1 if s1.get(k) != s2.get(k)][:5]))
                except R.Undecided as ex:
                    rec['crosscheck'] = {'solver': 'other', 'undecided': ex.reason}
        except X.ExtractionBroken as ex:
            rec['undecided'] = ('extraction-broke', str(ex))
        except R.Undecided as ex:
            rec['undecided'] = (ex.reason, ex.detail)
        except Exception as ex:  # noqa
            import traceback
            rec['undecided'] = ('internal-error', traceback.format_exc())
        finally:
            gate.release(mem)
            if not args.keep:
                for f in glob.glob(os.path.join(wd, '*')):
                    if not f.endswith('.c'):
                        try:
                            os.remove(f)
                        except OSError:
                            pass
        with lock:
            results.append(rec)
        return rec

    jobs = []
    skipped_safety = []
    # heavy units first
    order = sorted(sel, key=lambda u: -max([int(u.get('timeout', 300))] + [int(v.get('timeout', 0)) for v in u['variants']]))
    with cf.ThreadPoolExecutor(max_workers=CORES) as ex:
        for u in order:
            for v in u['variants']:
                if v.get('tier', 'quick') == 'thorough' and args.tier != 'thorough':
                    continue
                # a variant that serves this property only through its safety obligations (C07) and is expensive may ask
                # to be left to the thorough tier there; it still runs in the quick tier of the properties it proves
                vprops = v.get('properties', u['properties'])
                if prop not in vprops and prop not in u['safety']:
                    continue
                if prop not in vprops and args.tier != 'thorough' and v.get('safety_tier', u.get('safety_tier', 'quick')) == 'thorough':
                    skipped_safety.append('%s.%s' % (u['name'], v['name']))
                    continue
                if args.variant and v['name'] not in args.variant:
                    continue
                jobs.append(ex.submit(job, u, v))
        for j in jobs:
            j.result()

    # ---------------------------------------------------------------- accounting
    violations = []
    undecided = []
    known_lines = []
    stale = []
    ev_units = []
    tot_ob = tot_dis = 0
    bounded = []
    samples = []
    assumptions = set(coverage.get('assumptions', []))
    kf = [k for k in known.get('findings', []) if k['property'] == prop]
    results.sort(key=lambda r: (r['unit'], r['variant']))
    for rec in results:
        meta, vm = rec['meta'], rec['vmeta']
        uname = '%s.%s' % (rec['unit'], rec['variant'])
        for a in meta.get('assumptions', []):
            assumptions.add('%s: %s' % (rec['unit'], a))
        if 'undecided' in rec and 'obligations' not in rec:
            undecided.append((uname, rec['undecided'][0], rec['undecided'][1]))
            ev_units.append({'unit': rec['unit'], 'variant': rec['variant'], 'status': 'undecided', 'reason': rec['undecided'][0]})
            continue
        if 'undecided' in rec:
            undecided.append((uname, rec['undecided'][0], rec['undecided'][1]))
        obs = rec['obligations']
        own = [o for o in obs if o['own']]
        if args.verbose:
            for o in own:
                print('  [%s] %-45s %-22s %-8s %s:%s %s' % (uname, o['name'], o['class'], o['status'], os.path.basename(o['file']), o['line'], o['description'][:100]))
        # instrumentation obligations must all hold
        bad_instr = [o for o in obs if not o['own'] and o['status'] != 'SUCCESS']
        if bad_instr:
            undecided.append((uname, 'tool-error', 'instrumentation obligation failed: ' + bad_instr[0]['name'] + ' ' + bad_instr[0]['description']))
        for o in own:
            if o['class'] == 'spec-wellformed' and o['status'] != 'SUCCESS':
                undecided.append((uname, 'spec-ill-formed', '%s %s at line %s' % (o['name'], o['description'], o['line'])))
        own = [o for o in own if o['class'] != 'spec-wellformed']
        reach = [o for o in own if o['class'] == 'reach']
        for o in reach:
            if o['status'] != 'FAILURE':
                undecided.append((uname, 'vacuous', 'reach assertion %r is unreachable: contradictory precondition or invariant' % o['description']))
        if meta.get('min_reach', 1) > len(reach):
            undecided.append((uname, 'vacuity-guard-missing', 'unit has %d reach assertions, needs %d' % (len(reach), meta.get('min_reach', 1))))
        rel = [o for o in own if o['class'] != 'reach' and relevant(meta, prop, o)]
        if len([o for o in own if o['class'] != 'reach']) < int(vm.get('min_obligations', meta.get('min_obligations', 1))):
            undecided.append((uname, 'obligations-missing', 'only %d obligations generated, unit expects >= %s' % (len([o for o in own if o['class'] != 'reach']), vm.get('min_obligations', meta.get('min_obligations', 1)))))
        expect = [re.compile(p) for p in vm.get('expect_fail', [])]
        is_bounded = bool(meta.get('unwind') or meta.get('bounded'))
        by_class = {}
        n_dis = 0
        for o in rel:
            by_class.setdefault(o['class'], [0, 0])
            by_class[o['class']][0] += 1
            exp = any(p.search(o['name']) or p.search(o['description']) for p in expect)
            if o['status'] == 'SUCCESS':
                by_class[o['class']][1] += 1
                n_dis += 1
                if exp:
                    stale.append((uname, o['name'], o['description']))
            elif o['status'] == 'FAILURE':
                entry = None
                if exp:
                    for k in kf:
                        if k['unit'] == rec['unit'] and k.get('variant', rec['variant']) == rec['variant'] and \
                                (re.search(k['obligation'], o['name']) or re.search(k['obligation'], o['description'])):
                            entry = k
                if entry:
                    known_lines.append((entry, o))
                elif o['class'] == 'assigns' and re.fullmatch(r'Check that (?!g_|verif_)[A-Za-z_]\w* is assignable', o['description']):
                    # a plain local variable written inside a loop whose frame does not list it: the body was
                    # restructured (new loop-carried local), which the loop contract cannot follow - undecided, not a violation
                    undecided.append((uname, 'loop-frame-changed', '%s: %s' % (o['name'], o['description'])))
                else:
                    violations.append((rec, o))
            else:
                undecided.append((uname, 'obligation-' + o['status'].lower(), o['name']))
        # in a known-finding variant the expected failures are not obligations of the claim
        n_rel = len([o for o in rel if not any(p.search(o['name']) or p.search(o['description']) for p in expect)])
        n_dis_claim = len([o for o in rel if o['status'] == 'SUCCESS' and not any(p.search(o['name']) or p.search(o['description']) for p in expect)])
        urec = {'unit': rec['unit'], 'variant': rec['variant'], 'mode': meta.get('mode', 'dfcc'),
                'function': vm.get('enforce') or meta.get('enforce') or meta.get('function'),
                'extracted': [{'file': e['file'], 'line': e['line'], 'signature': e['signature'], 'rules_fired': len(e['rules']),
                               'dropped': e['dropped'], 'loops': e['loops'], 'loop_contracts': e['loop_contracts']} for e in rec.get('extractions', [])],
                'replaced_callees': meta.get('replace', []),
                'obligations_relevant': n_rel, 'discharged': n_dis_claim,
                'by_class': {k: {'obligations': v[0], 'discharged': v[1]} for k, v in by_class.items()},
                'obligations_total_in_unit': len(own), 'reach_assertions_failed_as_required': len([o for o in reach if o['status'] == 'FAILURE']),
                'backend': rec.get('solver'), 'solver_seconds': round(rec.get('seconds', 0), 2),
                'assume_sites': meta.get('assume_sites', []), 'crosscheck': rec.get('crosscheck')}
        if is_bounded:
            urec['bounded'] = meta.get('bounded', 'unwind %s' % meta.get('unwind'))
            urec['unwind'] = meta.get('unwind')
            bounded.append(urec)
        else:
            tot_ob += n_rel
            tot_dis += n_dis_claim
            ev_units.append(urec)
        for o in rel[:2]:
            if len(samples) < 12:
                samples.append({'unit': rec['unit'], 'obligation': o['name'], 'description': o['description'],
                                'source': '%s:%s' % (o['file'], o['line']), 'status': o['status']})

    # ---------------------------------------------------------------- reporting
    rc = 0
    outdir = os.path.join(VERIF, 'replay', 'out', prop)
    nviol = 0
    if violations:
        os.makedirs(outdir, exist_ok=True)
    reported = set()
    for rec, o in violations:
        key = (rec['unit'], rec['variant'], o['name'])
        if key in reported:
            continue
        reported.add(key)
        path, found = RP.make_replay(prop, rec, o, outdir, VERIF, REPO, scratch)
        print('VIOLATION property=%s replay=%s%s' % (prop, path, '' if found else ' no-failing-input-found'))
        print('  unit=%s obligation=%s at %s:%s : %s' % (rec['unit'], o['name'], o['file'], o['line'], o['description']))
        nviol += 1
        rc = 1
    seen = set()
    for entry, o in known_lines:
        k = (entry['unit'], entry.get('variant'), entry['what'])
        if k in seen:
            continue
        seen.add(k)
        print('KNOWN-FINDING: property=%s %s' % (prop, entry['what']))
    for u, n, d in stale:
        print('NOTE stale-known-finding-candidate unit=%s obligation=%s (%s) now passes' % (u, n, d))
    grouped = {}
    for u, reason, detail in undecided:
        grouped.setdefault((u, reason), []).append(detail)
    for (u, reason), details in grouped.items():
        print('UNDECIDED property=%s unit=%s reason=%s%s' % (prop, u, reason, ' (%d obligations)' % len(details) if len(details) > 1 else ''))
        for detail in details[:3]:
            for ln in str(detail).strip().split('\n')[-12:]:
                print('    ' + ln)
        if rc == 0:
            rc = 2
    wall = time.time() - t0
    if not args.no_evidence and not args.unit and not args.variant:
        ev = {
            'property_id': prop, 'tier': args.tier, 'seed': seed, 'level': 'proof',
            'coverage': {
                'obligations': tot_ob, 'discharged': tot_dis,
                'checker_cmd': 'bin/check %s --tier %s  (per unit: goto-cc --function harness; goto-instrument --dfcc harness --enforce-contract F [--replace-call-with-contract G] --apply-loop-contracts; cbmc [--external-sat-solver kissat] --json-ui)' % (prop, args.tier),
                'trusted_base': TRUSTED_BASE,
                'units': ev_units,
                'functions_under_contract': sorted({e['signature'] for u in ev_units + bounded for e in u.get('extracted', [])}),
                'bounded_standins_not_counted_as_proved': bounded,
                'unverified_functions': coverage.get('unverified', []),
                'paper_lemmas': coverage.get('paper_lemmas', []),
                'undecided_clauses': coverage.get('undecided', []),
                'known_findings_reported': [e['what'] for e, _ in known_lines],
                'undecided_units': [{'unit': u, 'reason': r} for u, r, _ in undecided],
                'safety_obligations_left_to_thorough_tier': sorted(skipped_safety),
                'solver_seconds_total': round(sum(u.get('solver_seconds', 0) for u in ev_units + bounded), 2),
                'samples': samples,
                'explanation': 'obligations/discharged count only CBMC obligations of unbounded units that serve this property; bounded stand-ins are listed separately and never counted.',
            },
            'assumptions': sorted(assumptions),
            'wall_s': round(wall, 2),
            'violations': nviol,
        }
        os.makedirs(os.path.join(VERIF, 'evidence'), exist_ok=True)
        json.dump(ev, open(os.path.join(VERIF, 'evidence', prop + '.json'), 'w'), indent=1)
    print('SUMMARY property=%s tier=%s units=%d obligations=%d discharged=%d bounded_units=%d violations=%d undecided=%d known=%d wall=%.1fs'
          % (prop, args.tier, len(results), tot_ob, tot_dis, len(bounded), nviol, len(undecided), len(seen), wall))
    if not args.keep:
        shutil.rmtree(scratch, ignore_errors=True)
    return rc


if __name__ == '__main__':
    sys.exit(main())
