"""Verbatim extraction of C++ function definitions from /repo and the lexical
rewrites that lower them to C.  Everything here is purely textual; every rule
reports how often it fired, and a rule whose must-fire condition is not met
raises ExtractionBroken (=> exit 2, "undecided", never a violation)."""
import re


class ExtractionBroken(Exception):
    pass


def scan(src, i, end=None):
    """yield (pos, ch) for code characters, skipping comments / string / char literals"""
    n = len(src) if end is None else end
    while i < n:
        c = src[i]
        if src.startswith('//', i):
            j = src.find('\n', i)
            i = n if j < 0 else j
            continue
        if src.startswith('/*', i):
            j = src.find('*/', i)
            i = n if j < 0 else j + 2
            continue
        if c == '"' or c == "'":
            # a digit separator such as 1'000 is not used in the repo
            q = c
            i += 1
            while i < n and src[i] != q:
                if src[i] == '\\':
                    i += 1
                i += 1
            i += 1
            continue
        yield i, c
        i += 1


def match_close(src, start, open_ch, close_ch):
    """src[start] == open_ch; return index of the matching close_ch"""
    d = 0
    for i, c in scan(src, start):
        if c == open_ch:
            d += 1
        elif c == close_ch:
            d -= 1
            if d == 0:
                return i
    raise ExtractionBroken('unbalanced %s%s from offset %d' % (open_ch, close_ch, start))


def class_region(src, within):
    """return (start, end) of the brace body of the class/struct/namespace whose head matches `within`"""
    ms = list(re.finditer(within, src))
    ms = [m for m in ms if _is_definition_head(src, m.end())]
    if len(ms) != 1:
        raise ExtractionBroken('within %r matched %d definitions' % (within, len(ms)))
    b = src.index('{', ms[0].end())
    return b, match_close(src, b, '{', '}')


def _is_definition_head(src, pos):
    for i, c in scan(src, pos):
        if c == ';':
            return False
        if c == '{':
            return True
    return False


def extract(src, head, within=None):
    """Return (head_text, body_text_with_braces, first_line_of_body, start_offset).
    `head` must match exactly one *definition* (a match followed by ';' before '{'
    at parenthesis depth 0 is a declaration and is ignored)."""
    lo, hi = 0, len(src)
    if within:
        lo, hi = class_region(src, within)
    found = []
    for m in re.finditer(head, src[lo:hi]):
        s = lo + m.start()
        depth = 0
        start = None
        for i, c in scan(src, s, hi):
            if c == '(':
                depth += 1
            elif c == ')':
                depth -= 1
            elif c == ';' and depth == 0:
                break
            elif c == '{' and depth == 0:
                start = i
                break
        if start is not None:
            found.append((s, start))
    if len(found) != 1:
        raise ExtractionBroken('head %r matched %d definitions (need exactly 1)' % (head, len(found)))
    s, start = found[0]
    end = match_close(src, start, '{', '}')
    return src[s:start], src[start:end + 1], src.count('\n', 0, start) + 1, s


def fire_ok(spec, n):
    """spec: int | 'N' | 'N+' | '*'"""
    spec = str(spec)
    if spec == '*':
        return True
    if spec.endswith('+'):
        return n >= int(spec[:-1])
    return n == int(spec)


def apply_rewrites(text, rules, log, what):
    """rules: list of [regex, replacement, fire]"""
    for r in rules:
        rx, rep, fire = r[0], r[1], (r[2] if len(r) > 2 else '1+')
        text, n = re.subn(rx, rep, text, flags=re.S if (len(r) > 3 and 's' in r[3]) else 0)
        log.append({'rule': rx, 'to': rep, 'fired': n, 'must': str(fire)})
        if not fire_ok(fire, n):
            raise ExtractionBroken('%s: rewrite %r fired %d times, must fire %s' % (what, rx, n, fire))
    return text


# ---------------------------------------------------------------------------
# The standard lowering vocabulary (DESIGN.md 2.2).  All rules are lexical and
# may fire any number of times; what they produce must then compile as C.
ENUMS = ['CellOrientation', 'CellRowPolarity', 'LegalizationModel', 'NetModelOption', 'PlacementStep']

STD_RULES = [
    # rule 1: scoped enumerators and std helpers
    [r'\b(%s)::(\w+)' % '|'.join(ENUMS), r'\1_\2', '*'],
    [r'\bstd::(min|max|abs|round|swap|clamp|ceil|floor|sqrt|pow|exp|log|isfinite|isnan|make_pair|llround|lround)\b(?:<[^<>()]*>)?\s*\(', r'std_\1(', '*'],
    [r'\bstd::numeric_limits<int>::max\(\)', 'INT_MAX', '*'],
    [r'\bstd::numeric_limits<int>::min\(\)', 'INT_MIN', '*'],
    [r'\bstd::numeric_limits<long long>::max\(\)', 'LLONG_MAX', '*'],
    [r'\bstd::numeric_limits<long long>::min\(\)', 'LLONG_MIN', '*'],
    [r'\bstd::numeric_limits<float>::infinity\(\)', '((float)INFINITY)', '*'],
    [r'\bstd::numeric_limits<float>::max\(\)', 'FLT_MAX', '*'],
    # rule 2: casts and vector observers
    [r'\bstatic_cast<([^<>]+)>\s*\(', r'(\1)(', '*'],
    [r'\((int|size_t|long long)\)\s*(\w+)\.size\(\)', r'((\1)\2_size)', '*'],
    [r'\b(\w+)\.size\(\)', r'((size_t)\1_size)', '*'],
    [r'\b(\w+)\.empty\(\)', r'(\1_size == 0)', '*'],
    [r'\b(\w+)\.back\(\)', r'\1[\1_size - 1]', '*'],
    [r'\b(\w+)\.front\(\)', r'\1[0]', '*'],
    # rule 6: structured binding of a std::pair<bool, long long> returned by a call
    [r'\b(?:const )?auto &?\[(\w+), (\w+)\] = ([\w.>-]+\[[^\];]+\]);', r'__auto_type verif_sb_\1 = \3; __auto_type \1 = verif_sb_\1.first; __auto_type \2 = verif_sb_\1.second;', '*'],
    [r'\bauto \[(\w+), (\w+)\] = ((?:\w+_)?(?:valueOn\w+|evaluatePlacement)\([^;]*\));', r'Pair_bool_longlong verif_p_\1 = \3; bool \1 = verif_p_\1.first; long long \2 = verif_p_\1.second;', '*'],
    [r'\bauto \[(\w+), (\w+)\] = ((?:\w+_)?attemptPlacement\([^;]*\));', r'Pair_bool_int verif_p_\1 = \3; bool \1 = verif_p_\1.first; int \2 = verif_p_\1.second;', '*'],
    # `auto x = e;` and `const auto &x = e;` (read-only alias) -> GNU __auto_type (a non-const `auto &` is NOT lowered)
    [r'\bconst\s+auto\s*&\s*(\w+)\s*=', r'const __auto_type \1 =', '*'],
    [r'\bauto\s+(\w+)\s*=(?!=)', r'__auto_type \1 =', '*'],
    # rule 9: container operations on lowered vectors (models in prelude/containers_abs.h)
    [r'\b(\w+)\.reserve\([^;]*\);', '', '*'],
    [r'\b(\w+)\.insert\(\s*\1\.end\(\),\s*(\w+)\.begin\(\),\s*\2\.end\(\)\)', r'VEC_APPEND(\1, \2)', '*'],
    [r'\b(\w+)\.push_back\(', r'VEC_PUSH_BACK(\1, ', '*'],
    [r'\b(\w+)\.clear\(\)', r'VEC_CLEAR(\1)', '*'],
    [r'\b(\w+)\.resize\(', r'VEC_RESIZE(\1, ', '*'],
    # rule 4: throw
    [r'\bthrow\s+std::runtime_error\s*\((?:[^;]|\n)*?\)\s*;', 'VERIF_THROW;', '*', 's'],
    # dropped keywords
    [r'\[\[maybe_unused\]\]', '', '*'],
    [r'\bnullptr\b', 'NULL', '*'],
]

# rule 5: range-for over a lowered vector (the vector must not be modified in the loop;
# checked by range_for_guard below)
# range-for with a structured binding over a vector<pair<int,int>>:  for (auto [a, b] : xs) {
RANGE_FOR_PAIR = re.compile(r'\bfor\s*\(\s*(?:const\s+)?auto\s*&?\s*\[\s*(\w+)\s*,\s*(\w+)\s*\]\s*:\s*(\w+)\s*\)\s*\{')
RANGE_FOR = re.compile(r'\bfor\s*\(\s*(?:const\s+)?(\w+(?:\s+\w+)?)(?:\s*&\s*|\s+)(\w+)\s*:\s*(\w+)\s*\)\s*\{')


def lower_range_for(text, log):
    n = 0
    k = 0
    while True:
        m = RANGE_FOR_PAIR.search(text)
        if not m:
            break
        a, b, vec = m.group(1), m.group(2), m.group(3)
        idx = '_i_%s%d' % (vec, k)
        k += 1
        head = 'for (int %s = 0; %s < %s_size; ++%s) { int %s = %s[%s].first; int %s = %s[%s].second;' % (idx, idx, vec, idx, a, vec, idx, b, vec, idx)
        text = text[:m.start()] + head + text[m.end():]
        n += 1
    while True:
        m = RANGE_FOR.search(text)
        if not m:
            break
        ty, var, vec = m.group(1), m.group(2), m.group(3)
        close = match_close(text, m.end() - 1, '{', '}')
        body = text[m.end():close]
        if re.search(r'\b%s\s*(\.\s*(push_back|emplace_back|clear|resize|assign|pop_back)|=[^=])' % re.escape(vec), body):
            raise ExtractionBroken('range-for over %s modifies it' % vec)
        idx = '_i_%s' % var
        head = 'for (int %s = 0; %s < %s_size; ++%s) { %s %s = %s[%s];' % (idx, idx, vec, idx, ty, var, vec, idx)
        text = text[:m.start()] + head + text[m.end():]
        n += 1
    log.append({'rule': 'range-for', 'fired': n, 'must': '*'})
    return text


def lower_try(text, log):
    """rule 8: try { B } catch (...) { H }  =>  { B' } verif_catch_N: if (verif_exc) { caught = verif_exc; verif_exc = 0; H' }
    where B' propagates exceptions of may-throw calls to the handler (VERIF_PROPAGATE -> goto) and H' re-raises the
    caught exception on `throw;`.  verif_exc is an exception KIND: 1 = an object derived from std::exception (what the
    repository itself throws), any other non-zero value = some other type (a callback may throw anything).
    catch (...) handles every kind; catch (const std::exception &) handles kind 1 only and every other kind leaves the
    function.  Other handler types are outside the vocabulary."""
    n = 0
    while True:
        m = re.search(r'\btry\s*\{', text)
        if not m:
            break
        ob = m.end() - 1
        cb = match_close(text, ob, '{', '}')
        mc = re.compile(r'\s*catch\s*\(\s*(\.\.\.|(?:const\s+)?std::exception\s*(?:const\s*)?&\s*\w*)\s*\)\s*\{').match(text, cb + 1)
        if not mc:
            raise ExtractionBroken('try block whose handler is neither catch (...) nor catch (const std::exception &) is outside the vocabulary')
        cond = 'verif_exc' if mc.group(1) == '...' else 'verif_exc == 1'
        hb = mc.end() - 1
        he = match_close(text, hb, '{', '}')
        if re.compile(r'\s*catch\b').match(text, he + 1):
            raise ExtractionBroken('several handlers on one try block are outside the vocabulary')
        label = 'verif_catch_%d' % n
        body = text[ob + 1:cb].replace('VERIF_PROPAGATE;', 'VERIF_PROPAGATE_TO(%s);' % label)
        handler = re.sub(r'\bthrow\s*;', 'do { verif_exc = verif_caught_%d; return VERIF_DUMMY; } while (0);' % n, text[hb + 1:he])
        text = (text[:m.start()] + '{' + body + '} ' + label + ': if (' + cond + ') { const int verif_caught_%d = verif_exc; verif_exc = 0; ' % n
                + handler + '} VERIF_PROPAGATE;' + text[he + 1:])
        n += 1
    log.append({'rule': 'try/catch lowering', 'fired': n, 'must': '*'})
    return text


def strip_comments_keep_lines(s):
    """remove // and /* */ comments (outside string literals), keeping every newline"""
    out = []
    i = 0
    n = len(s)
    while i < n:
        c = s[i]
        if c == '"' or c == "'":
            q = c
            j = i + 1
            while j < n and s[j] != q:
                if s[j] == '\\':
                    j += 1
                j += 1
            out.append(s[i:j + 1])
            i = j + 1
            continue
        if s.startswith('//', i):
            j = s.find('\n', i)
            i = n if j < 0 else j
            continue
        if s.startswith('/*', i):
            j = s.find('*/', i)
            j = n if j < 0 else j + 2
            out.append('\n' * s.count('\n', i, j))
            i = j
            continue
        out.append(c)
        i += 1
    return ''.join(out)


def _strip_comments(s):
    out = []
    i = 0
    n = len(s)
    while i < n:
        if s.startswith('//', i):
            j = s.find('\n', i)
            i = n if j < 0 else j
            continue
        if s.startswith('/*', i):
            j = s.find('*/', i)
            i = n if j < 0 else j + 2
            continue
        out.append(s[i])
        i += 1
    return ''.join(out)


def lower_local_lambdas(text, log):
    """rule 7: a capture-by-reference lambda used as a local function
           auto f = [&](T a) [-> R] { BODY };   ...   f(ARG)
    is inlined at each call site as a GNU statement expression
           ({ T a = (ARG); R verif_ret_f; do { BODY' } while (0); verif_ret_f; })
    with `return e;` in BODY rewritten to `{ verif_ret_f = (e); break; }`.  The body stays verbatim otherwise.
    Admitted only for lambdas without loops or switch in their body (a `break` must leave the do-while)."""
    n = 0
    while True:
        m = re.search(r'\bauto\s+(\w+)\s*=\s*\[&\]\s*\(([^)]*)\)\s*(?:->\s*(\w+)\s*)?\{', text)
        if not m:
            break
        name, params, rtype = m.group(1), m.group(2).strip(), m.group(3) or 'bool'
        ob = m.end() - 1
        cb = match_close(text, ob, '{', '}')
        tail = re.compile(r'\s*;').match(text, cb + 1)
        if not tail:
            raise ExtractionBroken('lambda %s: definition is not followed by ;' % name)
        body = ''.join(text[k] for k, _ in scan(text, ob + 1, cb)) if False else _strip_comments(text[ob + 1:cb])
        if re.search(r'\b(for|while|switch)\b', body):
            raise ExtractionBroken('lambda %s: loops/switch inside a lambda body are outside the vocabulary' % name)
        pm = re.match(r'^(\w+(?:\s+\w+)?)\s+&?\s*(\w+)$', params)
        if not pm:
            raise ExtractionBroken('lambda %s: only one by-value parameter is admitted (got %r)' % (name, params))
        ptype, pname = pm.group(1), pm.group(2)
        body2 = re.sub(r'\breturn\s+([^;]*);', lambda mm: '{ verif_ret_%s = (%s); break; }' % (name, mm.group(1)), body)
        nl = text[m.start():tail.end()].count('\n')
        text = text[:m.start()] + '\n' * nl + text[tail.end():]
        calls = 0

        def repl(mm):
            nonlocal calls
            calls += 1
            close = match_close(mm.string, mm.end() - 1, '(', ')')
            return None
        # replace call sites (balanced argument)
        out = []
        i = 0
        rx = re.compile(r'\b%s\s*\(' % re.escape(name))
        while True:
            mm = rx.search(text, i)
            if not mm:
                out.append(text[i:])
                break
            close = match_close(text, mm.end() - 1, '(', ')')
            arg = text[mm.end():close]
            out.append(text[i:mm.start()])
            # the argument is evaluated before the parameter is declared (it may mention a variable of the same name)
            out.append('({ %s verif_arg_%s = (%s); %s %s = verif_arg_%s; %s verif_ret_%s; do {%s} while (0); verif_ret_%s; })' % (ptype, name, arg, ptype, pname, name, rtype, name, ' '.join(body2.split('\n')), name))
            i = close + 1
            calls += 1
        text = ''.join(out)
        if calls == 0:
            raise ExtractionBroken('lambda %s is never called' % name)
        n += 1
    log.append({'rule': 'local [&] lambda inlined as statement expression', 'fired': n, 'must': '*'})
    return text


def loop_heads(text):
    """offsets (keyword_start, close_paren) of every for/while head in order of appearance"""
    code = [False] * len(text)
    for i, _ in scan(text, 0):
        code[i] = True
    res = []
    for m in re.finditer(r'\b(for|while)\b', text):
        if not code[m.start()]:
            continue
        j = m.end()
        while j < len(text) and text[j].isspace():
            j += 1
        if j >= len(text) or text[j] != '(':
            continue
        close = match_close(text, j, '(', ')')
        # a `while (...) ;` that ends a do-while is not a loop head
        k = close + 1
        while k < len(text) and text[k].isspace():
            k += 1
        if m.group(1) == 'while' and k < len(text) and text[k] == ';':
            continue
        res.append((m.start(), close))
    return res


SPEC_FILE = 'spec_inserted.c'


def current_line(text, pos, base_line, repo_file):
    """source line (in the repo file) of offset pos, taking earlier #line directives into account"""
    last = None
    for m in re.finditer(r'^#line (\d+) "([^"]*)"$', text[:pos], flags=re.M):
        last = m
    if last is None:
        return base_line + text.count('\n', 0, pos)
    if last.group(2) != repo_file:
        # inside inserted spec text: not expected for an insertion point
        return base_line
    return int(last.group(1)) + text.count('\n', last.end(), pos) - 1


def wrap_spec(text_to_insert, text, pos, base_line, repo_file):
    """inserted specification text gets its own #line so that CBMC attributes its obligations to the spec,
    not to the repo source"""
    if base_line is None:
        return ' ' + text_to_insert + ' '
    ln = current_line(text, pos, base_line, repo_file)
    return '\n#line 1 "%s"\n%s\n#line %d "%s"\n' % (SPEC_FILE, text_to_insert, ln, repo_file)


def attach_loop_contracts(text, loops, what, base_line=None, repo_file=None):
    """loops: list of {ordinal, contract}; ordinal counts for/while heads from 1"""
    heads = loop_heads(text)
    ins = []
    for lp in loops:
        k = int(lp['ordinal'])
        if (k < 1 or k > len(heads)) and lp.get('optional'):
            continue
        if k < 1 or k > len(heads):
            raise ExtractionBroken('%s: loop ordinal %d but body has %d loops' % (what, k, len(heads)))
        ins.append((heads[k - 1][1] + 1, lp['contract'].strip()))
    for pos, t in sorted(ins, reverse=True):
        text = text[:pos] + wrap_spec(t, text, pos, base_line, repo_file) + text[pos:]
    return text, len(heads)


def loop_body_span(text, head):
    """(open_brace, close_brace) of the body of the loop whose head is (kw_start, close_paren)"""
    k = head[1] + 1
    while k < len(text) and text[k].isspace():
        k += 1
    if k >= len(text) or text[k] != '{':
        raise ExtractionBroken('loop body is not a braced block')
    return k, match_close(text, k, '{', '}')


def insert_ghosts(text, ghosts, what, base_line=None, repo_file=None):
    """ghost statements at regex anchors (after=/before=) or at loop-relative positions
    (at = "body_start:K" | "body_end:K" | "after:K" | "before:K" | "end" | "start", K = loop ordinal)"""
    ins = []
    for g in ghosts:
        if re.search(r'\b(for|while)\s*\(', g['text']):
            raise ExtractionBroken('%s: ghost text must not contain loops' % what)
        if 'at' in g:
            at = g['at']
            if at == 'start':
                pos = text.index('{') + 1
            elif at == 'end':
                pos = text.rindex('}')
            else:
                kind, k = at.split(':')
                heads = loop_heads(text)
                k = int(k)
                if (k < 1 or k > len(heads)) and g.get('optional'):
                    continue
                if k < 1 or k > len(heads):
                    raise ExtractionBroken('%s: ghost position %s but body has %d loops' % (what, at, len(heads)))
                b, e = loop_body_span(text, heads[k - 1])
                pos = {'body_start': b + 1, 'body_end': e, 'after': e + 1, 'before': heads[k - 1][0]}[kind]
            ins.append((pos, g['text']))
            continue
        rx = g.get('after') or g.get('before')
        ms = list(re.finditer(rx, text))
        if not ms and g.get('optional'):
            continue
        if g.get('count') == '1+' and ms:
            want = len(ms)
        else:
            want = int(g.get('count', 1))
        if len(ms) != want:
            raise ExtractionBroken('%s: ghost anchor %r matched %d times (need %d)' % (what, rx, len(ms), want))
        for m in ms:
            ins.append((m.end() if 'after' in g else m.start(), g['text']))
    # stable: later-listed ghosts at the same position come later in the text
    for idx, (pos, t) in sorted(enumerate(ins), key=lambda x: (-x[1][0], -x[0])):
        text = text[:pos] + wrap_spec(t.strip(), text, pos, base_line, repo_file) + text[pos:]
    return text
