"""Replay of a failed obligation against the real C++ code (DESIGN.md 2.6).

A unit may name a native replay template (replay/<x>.cpp) and the harness inputs it needs.
The template includes the real headers, calls the real function with the values CBMC
assigned to the harness inputs and re-evaluates the postcondition natively; it is built
against the working tree with ASan+UBSan.  Exit status of the replay program:
  0  the property holds natively on this input  (=> no-failing-input-found)
  anything else (1 = postcondition false, sanitizer abort, assert abort) => violation reproduced."""
import glob
import json
import os
import re
import subprocess
import concurrent.futures as cf

SRC_FILES = ['coloquinte.cpp', 'parameters.cpp', 'export.cpp', 'place_global/net_model.cpp',
             'place_global/density_legalizer.cpp', 'place_global/density_grid.cpp', 'place_global/place_global.cpp',
             'place_detailed/legalizer.cpp', 'place_detailed/abacus_legalizer.cpp', 'place_detailed/tetris_legalizer.cpp',
             'place_detailed/row_legalizer.cpp', 'place_detailed/place_detailed.cpp', 'place_detailed/detailed_placement.cpp',
             'place_detailed/incr_net_model.cpp', 'place_detailed/row_neighbourhood.cpp', 'place_global/transportation.cpp',
             'place_global/transportation_1d.cpp']

CXX = ['clang++', '-std=c++17', '-O1', '-g', '-fsanitize=address,undefined', '-fno-sanitize-recover=undefined']


def include_flags(repo):
    fl = ['-I' + os.path.join(repo, 'src')]
    for p in ('subprojects/lemon', 'thirdparty'):
        if os.path.isdir(os.path.join(repo, p)):
            fl.append('-I' + os.path.join(repo, p))
    if os.path.isdir('/usr/include/eigen3'):
        fl.append('-I/usr/include/eigen3')
    return fl


def value_of(step):
    v = step.get('value', {})
    ty = v.get('type', '')
    b = v.get('binary')
    if b and re.fullmatch(r'[01]+', b) and ('int' in ty or 'long' in ty or 'char' in ty or 'enum' in ty or ty == '_Bool' or 'bool' in ty):
        n = int(b, 2)
        signed = 'unsigned' not in ty and ty != '_Bool'
        if signed and b[0] == '1' and len(b) > 1:
            n -= 1 << len(b)
        return str(n)
    d = v.get('data')
    if d is None:
        return None
    d = str(d)
    if 'float' in ty or 'double' in ty:
        if b and re.fullmatch(r'[01]+', b):
            # exact bit pattern, decoded by the template through IN_BITS()
            return ('FBITS32(0x%xu)' if len(b) == 32 else 'FBITS64(0x%xull)') % int(b, 2)
        return d
    if d in ('TRUE', 'FALSE'):
        return '1' if d == 'TRUE' else '0'
    return re.sub(r'(?<=\d)[uUlL]+$', '', d)


def harness_inputs(trace, names):
    """value of each requested harness variable: the last assignment made in the harness function
    (before the call), falling back to the first assignment anywhere"""
    vals = {}
    for s in trace or []:
        if s.get('stepType') != 'assignment':
            continue
        lhs = s.get('lhs', '')
        if lhs in names:
            fn = s.get('sourceLocation', {}).get('function', '')
            v = value_of(s)
            if v is None:
                continue
            if lhs not in vals or fn.startswith('harness'):
                vals[lhs] = v
    return vals


_build_lock = __import__('threading').Lock()


def build_and_run(template, defines, repo, workdir, sources=None, timeout=300, libdir=None):
    """the sanitizer objects of the working tree are built once per check run (libdir) and reused"""
    os.makedirs(workdir, exist_ok=True)
    libdir = libdir or workdir
    os.makedirs(libdir, exist_ok=True)
    inc = include_flags(repo)
    srcs = sources if sources else SRC_FILES
    objs = []

    def cc(f):
        o = os.path.join(libdir, f.replace('/', '_') + '.o')
        if os.path.exists(o):
            return o, None
        r = subprocess.run(CXX + inc + ['-c', os.path.join(repo, 'src', f), '-o', o], capture_output=True, text=True)
        return o, r

    with _build_lock:
        with cf.ThreadPoolExecutor(max_workers=16) as ex:
            for o, r in ex.map(cc, srcs):
                if r is not None and r.returncode != 0:
                    return None, 'build of working tree failed:\n' + r.stderr[-2000:]
                objs.append(o)
    exe = os.path.join(workdir, 'replay.exe')
    cmd = CXX + inc + ['-I' + os.path.dirname(template)] + ['-D%s=%s' % kv for kv in defines.items()] + [template] + objs + ['-o', exe]
    r = subprocess.run(cmd, capture_output=True, text=True)
    if r.returncode != 0:
        return None, 'build of replay program failed:\n' + r.stderr[-3000:]
    try:
        r = subprocess.run([exe], capture_output=True, text=True, timeout=timeout,
                           env=dict(os.environ, ASAN_OPTIONS='detect_leaks=0', UBSAN_OPTIONS='print_stacktrace=1'))
    except subprocess.TimeoutExpired:
        return 124, 'native replay timed out (non-termination is a violation of C07 only)'
    try:
        os.remove(exe)
    except OSError:
        pass
    return r.returncode, (r.stdout + r.stderr)[-4000:]


def make_replay(prop, rec, o, outdir, verif, repo, scratch):
    meta = rec['meta']
    fn = '%s.%s.%s.txt' % (rec['unit'], rec['variant'], re.sub(r'[^\w.-]', '_', o['name']))
    path = os.path.join(outdir, fn)
    spec = meta.get('replay')
    info = {'property': prop, 'unit': rec['unit'], 'variant': rec['variant'], 'obligation': o['name'],
            'description': o['description'], 'source': '%s:%s' % (o['file'], o['line']), 'class': o['class'],
            'cbmc_status': o['status'], 'commands': rec.get('cmds', [])}
    found = False
    native = 'no native replay template for this unit (state-level counterexample): no-failing-input-found'
    trace_txt = []
    tr = o.get('trace')
    if tr:
        for s in tr:
            if s.get('stepType') == 'assignment' and not s.get('hidden'):
                lhs = s.get('lhs', '')
                if lhs.startswith('__') or 'dfcc' in lhs.lower() or lhs.startswith('contract'):
                    continue
                trace_txt.append('%s = %s   (%s:%s)' % (lhs, s.get('value', {}).get('data'),
                                                        s.get('sourceLocation', {}).get('function'), s.get('sourceLocation', {}).get('line')))
            elif s.get('stepType') == 'failure':
                trace_txt.append('FAILURE: %s at %s:%s' % (s.get('reason'), s.get('sourceLocation', {}).get('file'), s.get('sourceLocation', {}).get('line')))
    if spec and (tr or spec.get('search')):
        vals = harness_inputs(tr, set(spec.get('inputs', [])))
        missing = [n for n in spec.get('inputs', []) if n not in vals]
        defines = {'IN_' + re.sub(r'\W', '_', k): '(%s)' % v for k, v in vals.items()}
        for k, v in spec.get('defines', {}).items():
            defines[k] = v
        info['replay'] = {'template': spec['template'], 'defines': defines, 'sources': spec.get('sources')}
        if missing:
            native = 'trace does not assign harness inputs %s: no-failing-input-found' % missing
        else:
            rc, out = build_and_run(os.path.join(verif, spec['template']), defines, repo,
                                    os.path.join(scratch, 'replay-' + rec['unit']), spec.get('sources'),
                                    libdir=os.path.join(scratch, 'sanlib'))
            if rc is None:
                native = 'native replay could not be built: ' + out
            elif rc != 0:
                found = True
                native = 'REPRODUCED against the real code (exit status %s):\n%s' % (rc, out)
            else:
                native = 'native run satisfies the postcondition on this input (abstract-state or model counterexample):\n' + out
    elif spec and not tr and not spec.get('search'):
        native = 'CBMC gave no trace for this obligation: no-failing-input-found'
    with open(path, 'w') as f:
        f.write('# replay file written by bin/check; re-run with: bin/check %s --replay %s\n' % (prop, path))
        f.write('FAILED OBLIGATION: %s  [%s]\n  %s\n  at %s\n' % (o['name'], o['class'], o['description'], info['source']))
        f.write('UNIT: %s variant %s (property %s)\n\n' % (rec['unit'], rec['variant'], prop))
        f.write('NATIVE REPLAY: %s\n\n' % native)
        f.write('JSON: ' + json.dumps(info) + '\n\n')
        f.write('VERIFIER OUTPUT (assignments of the counterexample trace, %d steps):\n' % len(trace_txt))
        f.write('\n'.join(trace_txt[-400:]) + '\n')
    return path, found


def replay_file(path, verif, repo):
    txt = open(path).read()
    m = re.search(r'^JSON: (.*)$', txt, re.M)
    if not m:
        print('not a replay file')
        return 2
    info = json.loads(m.group(1))
    print('obligation %s (%s) of unit %s' % (info['obligation'], info['description'], info['unit']))
    rp = info.get('replay')
    if not rp:
        print('no native replay recorded for this obligation; re-run the unit: bin/check %s --unit %s' % (info['property'], info['unit']))
        return 0
    wd = os.path.join(os.environ.get('VERIF_SCRATCH', '/var/tmp'), 'cvx-replay-%d' % os.getpid())
    rc, out = build_and_run(os.path.join(verif, rp['template']), rp['defines'], repo, wd, rp.get('sources'))
    import shutil
    shutil.rmtree(wd, ignore_errors=True)
    print(out)
    if rc is None:
        return 2
    if rc != 0:
        print('VIOLATION property=%s replay=%s' % (info['property'], path))
        return 1
    print('native run satisfies the postcondition')
    return 0
