"""Unit templates -> generated C translation units.

A unit template (units/*.c) is C text with directives in comments:

  /*@unit <toml> @*/                 metadata (see DESIGN.md 2.1)
  /*@enums src/coloquinte.hpp @*/    enum typedefs generated from the header
  /*@struct <toml> @*/               file=, class=, [cname=], [known=[...]]: struct layout from the header
  /*@members_on Class @*/            #define member (this->member) for every member of a generated struct
  /*@members_off Class @*/
  /*@extract <toml> @*/              the verbatim body of a repo function (braces included), after the
                                     declared lexical rewrites, with loop contracts attached by ordinal
                                     and ghost statements inserted at anchors

Everything else in the template (signature, contract clauses, spec functions, harness)
is the specification and is copied unchanged."""
import re
import os
import tomllib
from . import extract as X
from . import layout as L

DIRECTIVE = re.compile(r'/\*@(\w+)(.*?)@\*/', re.S)


class Generated:
    def __init__(self):
        self.text = ''
        self.meta = {}
        self.extractions = []
        self.structs = {}
        self.broken = []


def _one_line(s):
    return ' '.join(s.split())


def generate(template_path, repo, out_name):
    tpl = open(template_path).read()
    g = Generated()
    cache = {}

    def src(rel):
        if rel not in cache:
            p = os.path.join(repo, rel)
            if not os.path.exists(p):
                raise X.ExtractionBroken('source file missing: %s' % rel)
            cache[rel] = open(p).read()
        return cache[rel]

    def do(m):
        kind, arg = m.group(1), m.group(2)
        if kind == 'unit':
            g.meta = tomllib.loads(arg)
            return '/* unit metadata */'
        if kind == 'enums':
            return L.enums_c(src(arg.strip()))
        if kind == 'struct':
            t = tomllib.loads(arg)
            cname = t.get('cname', t['class'])
            txt, names = L.struct_c(src(t['file']), t['class'], set(t.get('known', [])), cname=cname,
                                    bases=[(src(b.get('file', t['file'])), b['class']) for b in t.get('bases', [])])
            need = t.get('need', [])
            for n in need:
                if n not in names:
                    raise X.ExtractionBroken('layout: member %s::%s no longer exists or cannot be lowered' % (t['class'], n))
            g.structs[cname] = names
            # one feature macro per member, so that a spec can adapt to members that exist only in some trees
            return txt + ''.join('#define HAS_%s_%s 1\n' % (cname, nm) for nm in names)
        if kind == 'members_on':
            return L.members_on(g.structs[arg.strip()])
        if kind == 'members_off':
            return L.members_off(g.structs[arg.strip()])
        if kind == 'extract':
            t = tomllib.loads(arg)
            try:
                return t.get('prefix', '') + do_extract(t)
            except X.ExtractionBroken as ex:
                if t.get('optional') and 'matched 0 definitions' in str(ex):
                    return '/* optional function %s not present in this tree */' % t['head']
                g.broken.append(str(ex))
                return '\n#error extraction broke: %s\n' % str(ex).replace('\n', ' ').replace('\\', '/')
        if kind == 'include':
            inc = os.path.join(os.path.dirname(template_path), arg.strip())
            if not os.path.exists(inc):
                inc = os.path.join(os.path.dirname(os.path.dirname(os.path.abspath(__file__))), arg.strip())
            return DIRECTIVE.sub(do, open(inc).read())
        raise X.ExtractionBroken('unknown directive @%s' % kind)

    def do_extract(t):
        s = src(t['file'])
        head, body, line, _ = X.extract(s, t['head'], t.get('within'))
        what = '%s:%s' % (t['file'], t['head'])
        log = []
        dropped = []
        # comments carry no semantics: removed (newlines kept) so that rewrite patterns and anchors do not depend on them
        text = X.strip_comments_keep_lines(body)
        # captures: names of locals that the unit must refer to (e.g. a carried accumulator) are read off the body by a
        # structural pattern instead of being hard-wired, so that renaming a local does not break the extraction;
        # ${NAME} is then replaced in every string of the directive
        if t.get('captures'):
            caps = {}
            for nm, rx in t['captures']:
                ms = list(re.finditer(rx, text))
                if len(ms) != 1:
                    raise X.ExtractionBroken('%s: capture %s matched %d times' % (what, nm, len(ms)))
                caps[nm] = ms[0].group(1)

            def subst(v):
                if isinstance(v, str):
                    for nm, val in caps.items():
                        v = v.replace('${%s}' % nm, val)
                    return v
                if isinstance(v, list):
                    return [subst(x) for x in v]
                if isinstance(v, dict):
                    return {k: subst(x) for k, x in v.items()}
                return v
            t = subst({k: v for k, v in t.items() if k != 'captures'})
            log.append({'rule': 'captures %s' % caps, 'fired': len(caps), 'must': '1+'})
        # optional slice: keep only the text between two anchors inside the body
        if 'slice_from' in t or 'slice_to' in t or 'slice_from_after' in t:
            a, b = 1, len(text) - 1
            if 'slice_from_after' in t:
                ms = list(re.finditer(t['slice_from_after'], text))
                if len(ms) != 1:
                    raise X.ExtractionBroken('%s: slice_from_after matched %d times' % (what, len(ms)))
                a = ms[0].end()
            if 'slice_from' in t:
                ms = list(re.finditer(t['slice_from'], text))
                if len(ms) != 1:
                    raise X.ExtractionBroken('%s: slice_from matched %d times' % (what, len(ms)))
                a = ms[0].start()
            if 'slice_to' in t:
                ms = list(re.finditer(t['slice_to'], text))
                if len(ms) != 1:
                    raise X.ExtractionBroken('%s: slice_to matched %d times' % (what, len(ms)))
                b = ms[0].start()
            line += text.count('\n', 0, a)
            dropped.append('text outside slice [%s .. %s)' % (t.get('slice_from', t.get('slice_from_after', 'body start')), t.get('slice_to', 'body end')))
            text = '{' + text[a:b] + '}'
        if t.get('init_list'):
            # constructor initialiser list `: a(x), b(y)` lowered to assignments in declaration order
            text = lower_init_list(head, text, t, log)
        for d in t.get('drop', []):
            rx, fire = d[0], (d[1] if len(d) > 1 else '1+')
            hits = re.findall(rx, text, flags=re.S)
            if not X.fire_ok(fire, len(hits)):
                raise X.ExtractionBroken('%s: drop %r fired %d times, must fire %s' % (what, rx, len(hits), fire))
            for h in hits:
                dropped.append(_one_line(h if isinstance(h, str) else h[0]))
            text = re.sub(rx, lambda mm: '\n' * mm.group(0).count('\n'), text, flags=re.S)
        text = preserve_lines_rewrites(text, t.get('rewrites', []), log, what)
        if t.get('std', True):
            text = X.lower_local_lambdas(text, log)
            text = X.lower_range_for(text, log)
            text = preserve_lines_rewrites(text, X.STD_RULES, log, what)
        if 'this_members' in t:
            # member names -> this->name (instead of member macros), from the real class declaration
            tm = t['this_members']
            names = [n for _, n in L.members(src(tm['file']), tm['class'])]
            cnt = 0
            for n in names:
                text, k = re.subn(r'(?<![\w.])(?<!->)%s(_size)?\b(?!\s*\()' % re.escape(n), lambda mm: 'this->' + mm.group(0), text)
                cnt += k
            log.append({'rule': 'members of %s -> this->member' % tm['class'], 'fired': cnt, 'must': '*'})
        text = preserve_lines_rewrites(text, t.get('post_rewrites', []), log, what)
        text = X.lower_try(text, log)
        ghosts = [dict(gh, text=_one_line(gh['text'])) for gh in t.get('ghosts', [])]
        text = X.insert_ghosts(text, ghosts, what, line, os.path.join(repo, t['file']))
        loops = [{'ordinal': lp['ordinal'], 'contract': _one_line(lp['contract']), 'optional': lp.get('optional', False)} for lp in t.get('loops', [])]
        text, nloops = X.attach_loop_contracts(text, loops, what, line, os.path.join(repo, t['file']))
        if 'nloops' in t and int(t['nloops']) != nloops:
            raise X.ExtractionBroken('%s: body has %d loops, unit expects %d' % (what, nloops, t['nloops']))
        if t.get('unwrap'):
            text = text.strip()[1:-1]
        g.extractions.append({'file': t['file'], 'head': t['head'], 'line': line,
                              'signature': _one_line(head), 'rules': [r for r in log if r['fired']],
                              'dropped': dropped, 'loops': nloops,
                              'loop_contracts': len(loops), 'ghosts': len(ghosts)})
        return '\n#line %d "%s"\n%s\n#line @@RESUME@@\n' % (line, os.path.join(repo, t['file']), text)

    def lower_init_list(head, body, t, log):
        m = re.search(r'\)\s*:(?!:)', head)
        if not m:
            raise X.ExtractionBroken('init_list requested but head has none: %s' % _one_line(head))
        il = head[m.end():]
        stmts = []
        i = 0
        while True:
            mm = re.compile(r'\s*,?\s*(\w+)\s*([({])').match(il, i)
            if not mm:
                break
            op = mm.group(2)
            close = X.match_close(il, mm.end() - 1, op, ')' if op == '(' else '}')
            stmts.append((mm.group(1), il[mm.end():close].strip()))
            i = close + 1
        log.append({'rule': 'init-list -> assignments', 'fired': len(stmts), 'must': '1+'})
        if 'init_order' in t:
            # C++ initialises members in declaration order, whatever the order of the list
            io = t['init_order']
            decl = [n for _, n in L.members(src(io['file']), io['class'])]
            for name, _ in stmts:
                if name not in decl:
                    raise X.ExtractionBroken('init_list: %s is not a member of %s' % (name, io['class']))
            stmts.sort(key=lambda st: decl.index(st[0]))
        pat = t['init_list']  # e.g. "{name} = {args};" or per-member templates
        out = []
        for name, args in stmts:
            tmpl = pat.get(name, pat.get('*')) if isinstance(pat, dict) else pat
            if tmpl is None:
                raise X.ExtractionBroken('init_list: no lowering for member %s' % name)
            out.append(tmpl.replace('{name}', name).replace('{args}', args))
        return '{ ' + ' '.join(out) + body.strip()[1:]

    def preserve_lines_rewrites(text, rules, log, what):
        for r in rules:
            rx, rep, fire = r[0], r[1], (r[2] if len(r) > 2 else '1+')
            cnt = [0]

            def f(mm):
                cnt[0] += 1
                out = mm.expand(rep)
                lost = mm.group(0).count('\n') - out.count('\n')
                return out + ('\n' * lost if lost > 0 else '')
            text = re.sub(rx, f, text, flags=re.S if (len(r) > 3 and 's' in r[3]) else 0)
            log.append({'rule': rx, 'to': rep, 'fired': cnt[0], 'must': str(fire)})
            if not X.fire_ok(fire, cnt[0]):
                raise X.ExtractionBroken('%s: rewrite %r fired %d times, must fire %s' % (what, rx, cnt[0], fire))
        return text

    out = DIRECTIVE.sub(do, tpl)
    # resolve #line resume markers
    lines = out.split('\n')
    for i, ln in enumerate(lines):
        if ln.strip() == '#line @@RESUME@@':
            lines[i] = '#line %d "%s"' % (i + 2, out_name)
    g.text = '\n'.join(lines)
    return g
