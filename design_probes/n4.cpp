#include "coloquinte.hpp"
#include <cstdio>
using namespace coloquinte;
static void show(const Circuit &c, const char *tag) { printf("%s:", tag); for (int i = 0; i < c.nbCells(); ++i) printf(" [%d,%d,%s]", c.x(i), c.y(i), toString(c.orientation(i)).c_str()); printf(" hpwl=%lld\n", c.hpwl()); }
int main() {
  // A: SAME polarity, pin at y-offset 1; B: no nets; P fixed pin at y=8
  Circuit c(3); c.setCellWidth({4,4,0}); c.setCellHeight({10,10,0});
  c.setCellIsFixed({false,false,true}); c.setCellX({8,8,10}); c.setCellY({0,10,8});
  c.setCellRowPolarity({CellRowPolarity::SAME, CellRowPolarity::SAME, CellRowPolarity::ANY});
  c.setCellOrientation({CellOrientation::N, CellOrientation::FS, CellOrientation::N});
  c.setRows({Row(0,20,0,10,CellOrientation::N), Row(0,20,10,20,CellOrientation::FS)});
  c.addNet({0,2},{2,0},{1,0});
  show(c, "before"); c.legalize(ColoquinteParameters(3)); show(c, "legal");
  long long h0 = c.hpwl();
  c.placeDetailed(ColoquinteParameters(3), PlacementCallback([&](PlacementStep){ printf("  cb hpwl=%lld\n", c.hpwl()); })); show(c, "detailed");
  printf("C05 %s: legalized %lld -> detailed %lld\n", c.hpwl() > h0 ? "VIOLATED" : "ok", h0, c.hpwl());
}
