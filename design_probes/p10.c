#include <stdbool.h>
#include <stdlib.h>
#include <iso646.h>
#define assert(e) __CPROVER_assert(e, "repo assert: " #e)
#define std_min(a,b) ((a)<(b)?(a):(b))
#define std_max(a,b) ((a)>(b)?(a):(b))
#define std_abs(a) ((a)<0?-(a):(a))
typedef struct { int absolutePos; int weight; } Bound;
#define Bound(w, p) ((Bound){.absolutePos=(p), .weight=(w)})
static bool Bound_lt(Bound a, Bound o) { return a.absolutePos < o.absolutePos || (a.absolutePos == o.absolutePos && a.weight < o.weight); }
/* exact model of std::priority_queue<Bound>: sorted array, max at the end; capacity K (bounded stand-in) */
#define K 10
typedef struct { Bound e[K]; int n; } PQ;
static bool PQ_empty(const PQ *q) { return q->n == 0; }
static Bound PQ_top(const PQ *q) { __CPROVER_assert(q->n > 0, "top of empty queue"); return q->e[q->n - 1]; }
static void PQ_pop(PQ *q) { __CPROVER_assert(q->n > 0, "pop of empty queue"); q->n--; }
static void PQ_push(PQ *q, Bound b) { __CPROVER_assert(q->n < K, "BOUND: queue model capacity"); int i = q->n; while (i > 0 && Bound_lt(b, q->e[i-1])) { q->e[i] = q->e[i-1]; i--; } q->e[i] = b; q->n++; }
typedef struct { Bound e[K]; int n; } VecBound;
#define NC 4
typedef struct { int begin_, end_; int constrainingPos_[NC]; int cumWidth_[NC+1]; int nb; PQ bounds; } RowLegalizer;
#define begin_ (this->begin_)
#define end_ (this->end_)
#define bounds (this->bounds)
#define usedSpace() (this->cumWidth_[this->nb])
long long RowLegalizer_getDisplacement(RowLegalizer *this, int width, int targetPos, bool update)
{
  int targetAbsPos = targetPos - usedSpace();
  int slope = -width;

  int cur_pos = end_;
  long long cur_cost = 0;

  VecBound passed_bounds; passed_bounds.n = 0;

  // While the slope is negative or the position is not legal yet
  while (not PQ_empty(&bounds) and
         ((slope < 0 and PQ_top(&bounds).absolutePos > targetAbsPos) or
          PQ_top(&bounds).absolutePos > end_ - usedSpace() - width)) {
    int old_pos = cur_pos;
    cur_pos = PQ_top(&bounds).absolutePos;
    cur_cost += ((long long)(old_pos - cur_pos)) * (slope + width);
    slope += PQ_top(&bounds).weight;

    // Remember which bounds we encountered in order to reset the object to its
    // initial state
    if (not update) {
      passed_bounds.e[passed_bounds.n++] = PQ_top(&bounds);
    }
    PQ_pop(&bounds);
  }
  assert(cur_pos >= begin_);

  // Always before the end and not pushed beyond the target position
  int finalAbsPos =
      std_min(end_ - usedSpace() - width,
               std_max(begin_, slope >= 0 ? cur_pos : targetAbsPos));

  cur_cost += (cur_pos - finalAbsPos) * (slope + width);

  assert(finalAbsPos >= begin_);
  assert(finalAbsPos <= end_ - usedSpace() - width);

  if (update) {
    this->cumWidth_[this->nb + 1] = width + usedSpace();
    this->constrainingPos_[this->nb] = finalAbsPos; this->nb++;
    if (slope > 0) {  // Remaining capacity of an encountered bound
      PQ_push(&bounds, Bound(slope, cur_pos));
    }
    // The new bound, depending on whether it was passed or not
    if (targetAbsPos > begin_) {
      PQ_push(&bounds, Bound(2 * width + std_min(slope, 0),
                        std_min(targetAbsPos, finalAbsPos)));
    }
  } else {
    for (int _i = 0; _i < passed_bounds.n; ++_i) { Bound b = passed_bounds.e[_i];
      PQ_push(&bounds, b);
    }
  }

  return cur_cost +
         width * std_abs(finalAbsPos -
                          targetAbsPos);  // Add the cost of the new cell
}
/* getPlacement lowered: std::partial_sum over reverse iterators with min lambda */
void RowLegalizer_getPlacement(const RowLegalizer *this, int *ret) {
  int fin[NC];
  for (int i = 0; i < this->nb; ++i) fin[i] = this->constrainingPos_[i];
  for (int i = this->nb - 2; i >= 0; --i) fin[i] = std_min(fin[i], fin[i+1]);
  for (int i = 0; i < this->nb; ++i) { ret[i] = fin[i] + this->cumWidth_[i];
    assert(fin[i] >= begin_);
    assert(fin[i] + this->cumWidth_[i + 1] <= end_);
  }
}
#undef begin_
#undef end_
#undef bounds
int nondet_int(void);
void harness(void) {
  RowLegalizer L; RowLegalizer *this = &L;
  int n = nondet_int(); int len = nondet_int();
  __CPROVER_assume(1 <= n && n <= NC && 1 <= len && len <= 7);
  L.begin_ = 0; L.end_ = len; L.nb = 0; L.cumWidth_[0] = 0; L.bounds.n = 0;
  int w[NC], t[NC], alt[NC], pl[NC];
  long long total = 0; int sum = 0;
  for (int i = 0; i < n; ++i) {
    w[i] = nondet_int(); t[i] = nondet_int();
    __CPROVER_assume(1 <= w[i] && w[i] <= 3 && -3 <= t[i] && t[i] <= len + 3);
    sum += w[i]; __CPROVER_assume(sum <= len);
    PQ saved = L.bounds;
    long long predicted = RowLegalizer_getDisplacement(this, w[i], t[i], false);
    __CPROVER_assert(saved.n == L.bounds.n, "getCost leaves the queue size unchanged");
    for (int k = 0; k < K; ++k) if (k < saved.n) __CPROVER_assert(saved.e[k].absolutePos == L.bounds.e[k].absolutePos && saved.e[k].weight == L.bounds.e[k].weight, "getCost leaves the queue unchanged");
    long long performed = RowLegalizer_getDisplacement(this, w[i], t[i], true);
    __CPROVER_assert(predicted == performed, "predicted cost equals performed cost");
    total += performed;
  }
  RowLegalizer_getPlacement(this, pl);
  long long real = 0, altcost = 0; int pos = 0;
  for (int i = 0; i < n; ++i) {
    __CPROVER_assert(pl[i] >= 0 && pl[i] + w[i] <= len, "inside the segment");
    if (i + 1 < n) __CPROVER_assert(pl[i] + w[i] <= pl[i+1], "order kept, no overlap");
    real += (long long)w[i] * std_abs(pl[i] - t[i]);
    alt[i] = nondet_int(); __CPROVER_assume(alt[i] >= pos && alt[i] + w[i] <= len); pos = alt[i] + w[i];
    altcost += (long long)w[i] * std_abs(alt[i] - t[i]);
  }
  __CPROVER_assert(real <= altcost, "placement is optimal among all ordered legal placements");
#ifdef SUMCHECK
  __CPROVER_assert(total == real, "reported costs sum to the cost of the final placement");
#endif
}
