#include "coloquinte.hpp"
#include "place_global/net_model.hpp"
#include "place_global/transportation_1d.hpp"
#include <cstdio>
#include <stdexcept>
using namespace coloquinte;
int main(){
  // C17: weight storage
  { NetModel m(2); m.addNet({0,1},{0.0f,0.0f},0.5f); printf("C17 netWeight(0.5) stored as %g\n", m.netWeight(0)); }
  // C10: busy flag after throwing callback
  { Circuit c(2); c.setCellWidth({2,2}); c.setCellHeight({1,1}); c.setupRows(Rectangle(0,10,0,2),1);
    c.addNet({0,1},{0,0},{0,0});
    try { c.legalize(ColoquinteParameters(3), PlacementCallback([](PlacementStep){ throw std::runtime_error("cb"); })); } catch (std::exception &e) { printf("C10 caught: %s\n", e.what()); }
    try { c.setRows(c.rows()); printf("C10 setRows accepted after throw\n"); } catch (std::exception &e) { printf("C10 setRows REFUSED after call ended: %s\n", e.what()); } }
  // C14: zero supply source
  { Transportation1d pb({0,5,9},{0,10},{3,0,4},{5,5}); auto a = pb.assign(); printf("C14 assign size=%zu (nbSources=3)\n", a.size()); }
  return 0;
}
