#include <stdbool.h>
#include <stdlib.h>
typedef enum { CellOrientation_N = 0, CellOrientation_S = 1, CellOrientation_W = 2, CellOrientation_E = 3, CellOrientation_FN = 4, CellOrientation_FS = 5, CellOrientation_FW = 6, CellOrientation_FE = 7, CellOrientation_INVALID = 8, CellOrientation_UNKNOWN = 9 } CellOrientation;
typedef enum { CellRowPolarity_ANY, CellRowPolarity_SAME, CellRowPolarity_OPPOSITE, CellRowPolarity_NW, CellRowPolarity_SE } CellRowPolarity;
typedef struct { int minX, maxX, minY, maxY; CellOrientation orientation; } Row;
typedef struct {
  Row *rows_; int rows__size;
  int *rowFirstCell_; int *rowLastCell_;
  int *cellWidth_; int cellWidth__size;
  int *cellPred_; int *cellNext_; int *cellRow_; int *cellX_; int *cellY_;
  CellOrientation *cellOrientation_; CellRowPolarity *cellRowPolarity_;
} DetailedPlacement;
#define NMAX 9
#define RMAX 3
int verif_thrown;
/* throw lowering for partial-correctness proofs: a throwing path does not return normally */
#define THROW_runtime_error(msg) do { verif_thrown = 1; __CPROVER_assume(0); } while (0)

/* member-name macros */
#define rows_ (this->rows_)
#define rowFirstCell_ (this->rowFirstCell_)
#define rowLastCell_ (this->rowLastCell_)
#define cellWidth_ (this->cellWidth_)
#define cellPred_ (this->cellPred_)
#define cellNext_ (this->cellNext_)
#define cellRow_ (this->cellRow_)
#define cellX_ (this->cellX_)
#define cellY_ (this->cellY_)
#define cellOrientation_ (this->cellOrientation_)
#define cellRowPolarity_ (this->cellRowPolarity_)
/* inline accessors from the header: bodies verbatim; asserts kept as obligations */
#define assert(e) __CPROVER_assert(e, "repo assert: " #e)
#define nbRows() (this->rows__size)
#define nbCells() (this->cellWidth__size)
static inline bool isPlaced(const DetailedPlacement *this, int cell) { return cellRow_[cell] != -1; }
static inline int cellWidth(const DetailedPlacement *this, int cell) { return cellWidth_[cell]; }
static inline int cellNext(const DetailedPlacement *this, int c) { assert(c >= 0 && c < nbCells()); return cellNext_[c]; }
static inline int cellX(const DetailedPlacement *this, int c) { assert(c >= 0 && c < nbCells()); return cellX_[c]; }
static inline int rowFirstCell(const DetailedPlacement *this, int row) { assert(row >= 0 && row < nbRows()); return rowFirstCell_[row]; }
#define isPlaced(c) isPlaced(this, c)
#define cellWidth(c) cellWidth(this, c)
#define cellNext(c) cellNext(this, c)
#define cellX(c) cellX(this, c)
#define rowFirstCell(r) rowFirstCell(this, r)

CellOrientation nondet_orient(void);
CellOrientation cellOrientationInRow(CellRowPolarity cellPolarity, CellOrientation rowOrientation) { CellOrientation r = nondet_orient(); __CPROVER_assume(cellPolarity != CellRowPolarity_ANY || r == CellOrientation_UNKNOWN); return r; }

int DetailedPlacement_siteBegin(const DetailedPlacement *this, int row, int pred)
/* body verbatim detailed_placement.cpp:303 */
{
  return pred == -1 ? rows_[row].minX : cellX(pred) + cellWidth(pred);
}
int DetailedPlacement_siteEnd(const DetailedPlacement *this, int row, int pred)
{
  int next = pred == -1 ? rowFirstCell(row) : cellNext(pred);
  return next == -1 ? rows_[row].maxX : cellX(next);
}
#define siteBegin(r,p) DetailedPlacement_siteBegin(this, r, p)
#define siteEnd(r,p) DetailedPlacement_siteEnd(this, r, p)
bool DetailedPlacement_canPlace(const DetailedPlacement *this, int c, int row, int pred, int x)
{
  if (isPlaced(c)) {
    THROW_runtime_error("Cannot attempt to place already placed cell");
  }
  return x >= siteBegin(row, pred) && x + cellWidth(c) <= siteEnd(row, pred);
}
#define canPlace(c,r,p,x) DetailedPlacement_canPlace(this, c, r, p, x)

/* ---- spec: local well-formedness, written from DetailedPlacement::check() + list symmetry ---- */
static bool in_cells(const DetailedPlacement *this, int k) { return k >= 0 && k < nbCells(); }
static bool LWF(const DetailedPlacement *this, int k) {
  int row = cellRow_[k], pc = cellPred_[k], nc = cellNext_[k];
  if (row < -1 || row >= nbRows()) return false;
  if (row == -1) return pc == -1 && nc == -1;
  if (cellWidth_[k] <= 0) return false;
  if (cellY_[k] != rows_[row].minY) return false;
  if (pc != -1) {
    if (!in_cells(this, pc) || cellRow_[pc] != row || cellNext_[pc] != k) return false;
    if ((long)cellX_[pc] + cellWidth_[pc] > cellX_[k]) return false;
  } else {
    if (rowFirstCell_[row] != k || cellX_[k] < rows_[row].minX) return false;
  }
  if (nc != -1) {
    if (!in_cells(this, nc) || cellRow_[nc] != row || cellPred_[nc] != k) return false;
    if ((long)cellX_[k] + cellWidth_[k] > cellX_[nc]) return false;
  } else {
    if (rowLastCell_[row] != k || (long)cellX_[k] + cellWidth_[k] > rows_[row].maxX) return false;
  }
  return true;
}
static bool RWF(const DetailedPlacement *this, int r) {
  int fc = rowFirstCell_[r], lc = rowLastCell_[r];
  if ((fc == -1) != (lc == -1)) return false;
  if (fc == -1) return true;
  return in_cells(this, fc) && in_cells(this, lc) && cellRow_[fc] == r && cellPred_[fc] == -1 && cellRow_[lc] == r && cellNext_[lc] == -1;
}
static bool MAG(const DetailedPlacement *this, int k) { return cellX_[k] >= -(1<<23) && cellX_[k] <= (1<<23) && cellWidth_[k] <= (1<<23); }


typedef struct { int x, y; } Point;
#define Point(x, y) ((Point){(x), (y)})
typedef struct { Point first, second; } PairPP;
#define std_make_pair(a, b) ((PairPP){(a), (b)})
static inline int cellPred(const DetailedPlacement *this, int c) { assert(c >= 0 && c < nbCells()); return cellPred_[c]; }
static inline int cellRow(const DetailedPlacement *this, int c) { assert(c >= 0 && c < nbCells()); return cellRow_[c]; }
static inline Point cellPos(const DetailedPlacement *this, int c) { assert(c >= 0 && c < nbCells()); return Point(cellX_[c], cellY_[c]); }
static inline int rowLastCell(const DetailedPlacement *this, int row) { assert(row >= 0 && row < nbRows()); return rowLastCell_[row]; }
#define cellPred(c) cellPred(this, c)
#define cellRow(c) cellRow(this, c)
#define cellPos(c) cellPos(this, c)
void DetailedPlacement_place(DetailedPlacement *this, int c, int row, int pred, int x)
/* body verbatim detailed_placement.cpp:355 */
{
  if (!canPlace(c, row, pred, x)) {
    THROW_runtime_error("Cannot place the cell");
  }
  cellRow_[c] = row;
  CellOrientation orient =
      cellOrientationInRow(cellRowPolarity_[c], rows_[row].orientation);
  if (orient != CellOrientation_UNKNOWN) {
    cellOrientation_[c] = orient;
  }
  int next = pred == -1 ? rowFirstCell(row) : cellNext(pred);
  if (pred == -1) {
    rowFirstCell_[row] = c;
  } else {
    cellNext_[pred] = c;
  }
  cellPred_[c] = pred;
  if (next == -1) {
    rowLastCell_[row] = c;
  } else {
    cellPred_[next] = c;
  }
  cellNext_[c] = next;
  cellX_[c] = x;
  cellY_[c] = rows_[row].minY;
}

int nondet_int(void);


#define place(c,r,p,x) DetailedPlacement_place(this, c, r, p, x)
void DetailedPlacement_unplace(DetailedPlacement *this, int c)
/* body verbatim detailed_placement.cpp:382 */
{
  int row = cellRow(c);
  int pred = cellPred(c);
  int next = cellNext(c);
  cellRow_[c] = -1;
  if (pred == -1) {
    rowFirstCell_[row] = next;
  } else {
    cellNext_[pred] = next;
  }
  cellPred_[c] = -1;
  if (next == -1) {
    rowLastCell_[row] = pred;
  } else {
    cellPred_[next] = pred;
  }
  cellNext_[c] = -1;
}
#define unplace(c) DetailedPlacement_unplace(this, c)
int DetailedPlacement_boundaryBefore(const DetailedPlacement *this, int c)
{
  assert(isPlaced(c));
  int pred = cellPred(c);
  if (pred == -1) {
    return rows_[cellRow(c)].minX;
  }
  return cellX(pred) + cellWidth(pred);
}
int DetailedPlacement_boundaryAfter(const DetailedPlacement *this, int c)
{
  assert(isPlaced(c));
  int next = cellNext(c);
  if (next == -1) {
    return rows_[cellRow(c)].maxX;
  }
  return cellX(next);
}
#define boundaryBefore(c) DetailedPlacement_boundaryBefore(this, c)
#define boundaryAfter(c) DetailedPlacement_boundaryAfter(this, c)
bool DetailedPlacement_canSwap(const DetailedPlacement *this, int c1, int c2)
{
  if (!isPlaced(c1) || !isPlaced(c2)) {
    THROW_runtime_error("Cannot swap cells that are not placed yet");
  }
  if (c1 == c2) {
    // Do not swap a cell with itself
    return false;
  }
  if (cellPred(c1) == c2 || cellPred(c2) == c1) {
    // We can always swap neighbours
    return true;
  }  // Otherwise check if there is enough space for both cells

  int b1 = boundaryBefore(c1);
  int b2 = boundaryBefore(c2);
  int e1 = boundaryAfter(c1);
  int e2 = boundaryAfter(c2);
  return e2 - b2 >= cellWidth(c1) && e1 - b1 >= cellWidth(c2);
}
#define canSwap(a,b) DetailedPlacement_canSwap(this, a, b)
PairPP DetailedPlacement_positionsOnSwap(const DetailedPlacement *this, int c1, int c2)
{
  Point p1 = cellPos(c1);
  Point p2 = cellPos(c2);
  int x1, x2;
  if (cellPred(c1) == c2) {
    x1 = p2.x;
    x2 = p2.x + cellWidth(c1);
  } else if (cellPred(c2) == c1) {
    x2 = p1.x;
    x1 = p1.x + cellWidth(c2);
  } else {
    x1 = (boundaryBefore(c2) + boundaryAfter(c2) - cellWidth(c1)) / 2;
    x2 = (boundaryBefore(c1) + boundaryAfter(c1) - cellWidth(c2)) / 2;
  }
  return std_make_pair(Point(x1, p2.y), Point(x2, p1.y));
}
#define positionsOnSwap(a,b) DetailedPlacement_positionsOnSwap(this, a, b)

int ghost_g, ghost_r;
static bool DP_fresh_unused(DetailedPlacement *this) {
  return __CPROVER_is_fresh(this, sizeof(*this)) && 1 <= this->cellWidth__size && this->cellWidth__size <= NMAX && 1 <= this->rows__size && this->rows__size <= RMAX
   && __CPROVER_is_fresh(rows_, sizeof(Row) * this->rows__size) && __CPROVER_is_fresh(rowFirstCell_, sizeof(int) * this->rows__size) && __CPROVER_is_fresh(rowLastCell_, sizeof(int) * this->rows__size)
   && __CPROVER_is_fresh(cellWidth_, sizeof(int) * this->cellWidth__size) && __CPROVER_is_fresh(cellPred_, sizeof(int) * this->cellWidth__size) && __CPROVER_is_fresh(cellNext_, sizeof(int) * this->cellWidth__size)
   && __CPROVER_is_fresh(cellRow_, sizeof(int) * this->cellWidth__size) && __CPROVER_is_fresh(cellX_, sizeof(int) * this->cellWidth__size) && __CPROVER_is_fresh(cellY_, sizeof(int) * this->cellWidth__size)
   && __CPROVER_is_fresh(cellOrientation_, sizeof(CellOrientation) * this->cellWidth__size) && __CPROVER_is_fresh(cellRowPolarity_, sizeof(CellRowPolarity) * this->cellWidth__size);
}
static bool ROWMAG(const DetailedPlacement *this, int r) { return rows_[r].minX >= -(1<<23) && rows_[r].maxX <= (1<<23) && rows_[r].minX <= rows_[r].maxX; }
static bool INV_at(const DetailedPlacement *this, int k) { return k == -1 || (in_cells(this, k) && LWF(this, k) && MAG(this, k) && cellRowPolarity_[k] >= 0 && cellRowPolarity_[k] <= 4 && (cellRow_[k] == -1 || (RWF(this, cellRow_[k]) && ROWMAG(this, cellRow_[k])))); }
static int nxt(const DetailedPlacement *this, int k) { return (k == -1 || !in_cells(this, k)) ? -1 : cellNext_[k]; }
static int prv(const DetailedPlacement *this, int k) { return (k == -1 || !in_cells(this, k)) ? -1 : cellPred_[k]; }
static bool INV_inst_swap(const DetailedPlacement *this, int c1, int c2) {
  int g = ghost_g, gr = ghost_r;
  if (!(0 <= g && g < nbCells() && 0 <= gr && gr < nbRows())) return false;
  return INV_at(this, c1) && INV_at(this, c2) && INV_at(this, g)
    && INV_at(this, prv(this, c1)) && INV_at(this, nxt(this, c1)) && INV_at(this, prv(this, c2)) && INV_at(this, nxt(this, c2))
    && INV_at(this, prv(this, g)) && INV_at(this, nxt(this, g))
    && RWF(this, gr) && INV_at(this, rowFirstCell_[gr]) && INV_at(this, rowLastCell_[gr]);
}
void DetailedPlacement_swap(DetailedPlacement *this, int c1, int c2)
/* body verbatim detailed_placement.cpp:406; rule 6 applied to the structured binding */
{
  if (!canSwap(c1, c2)) {
    THROW_runtime_error("Cannot swap these cells");
  }
  PairPP _p = positionsOnSwap(c1, c2); Point pos1 = _p.first; Point pos2 = _p.second;
  int r1 = cellRow(c1);
  int r2 = cellRow(c2);
  int p1 = cellPred(c1);
  int p2 = cellPred(c2);
  int x1 = pos1.x;
  int x2 = pos2.x;
  unplace(c1);
  unplace(c2);
  if (p1 == c2) {
    place(c1, r2, p2, x1);
    place(c2, r1, c1, x2);
  } else if (p2 == c1) {
    place(c2, r1, p1, x2);
    place(c1, r2, c2, x1);
  } else {
    place(c1, r2, p2, x1);
    place(c2, r1, p1, x2);
  }
}

int nondet_int(void);
void harness(void) {
  DetailedPlacement dp; DetailedPlacement *this = &dp;
  int n = nondet_int(), m = nondet_int();
  __CPROVER_assume(1 <= n && n <= NMAX && 1 <= m && m <= RMAX);
  this->rows__size = m; this->cellWidth__size = n;
  static Row a_rows[RMAX]; static int a_rf[RMAX], a_rl[RMAX]; rows_ = a_rows; rowFirstCell_ = a_rf; rowLastCell_ = a_rl;
  static int a_w[NMAX], a_p[NMAX], a_n[NMAX], a_r[NMAX], a_x[NMAX], a_y[NMAX]; static CellOrientation a_o[NMAX]; static CellRowPolarity a_pol[NMAX]; cellWidth_ = a_w; cellPred_ = a_p; cellNext_ = a_n;
  cellRow_ = a_r; cellX_ = a_x; cellY_ = a_y;
  cellOrientation_ = a_o; cellRowPolarity_ = a_pol; __CPROVER_havoc_object(a_rows); __CPROVER_havoc_object(a_rf); __CPROVER_havoc_object(a_rl); __CPROVER_havoc_object(a_w); __CPROVER_havoc_object(a_p); __CPROVER_havoc_object(a_n); __CPROVER_havoc_object(a_r); __CPROVER_havoc_object(a_x); __CPROVER_havoc_object(a_y); __CPROVER_havoc_object(a_o); __CPROVER_havoc_object(a_pol);
  int c1 = nondet_int(), c2 = nondet_int();
  __CPROVER_assume(0 <= c1 && c1 < n && 0 <= c2 && c2 < n);
  __CPROVER_assume(INV_inst_swap(this, c1, c2));
  int g = ghost_g;
  int ox = cellX_[g], oy = cellY_[g], orow = cellRow_[g];
  DetailedPlacement_swap(this, c1, c2);
  __CPROVER_assert(LWF(this, ghost_g), "swap preserves local well-formedness at an arbitrary cell");
  __CPROVER_assert(RWF(this, ghost_r), "swap preserves row well-formedness at an arbitrary row");
  __CPROVER_assert((g == c1 || g == c2) || (cellX_[g] == ox && cellY_[g] == oy && cellRow_[g] == orow), "frame");
}
