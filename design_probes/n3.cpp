#include "coloquinte.hpp"
#include "place_detailed/row_legalizer.hpp"
#include "utils/helpers.hpp"
#include <cstdio>
#include <cstring>
#include <stdexcept>
using namespace coloquinte;
static void show(const Circuit &c, const char *tag) { printf("%s:", tag); for (int i = 0; i < c.nbCells(); ++i) printf(" [%d,%d,%s]", c.x(i), c.y(i), toString(c.orientation(i)).c_str()); printf(" hpwl=%lld\n", c.hpwl()); }
int main(int argc, char **argv) {
  const char *t = argv[1];
  if (!strcmp(t, "c19a")) { try { ColoquinteParameters p(0); printf("constructed?!\n"); } catch (std::exception &e) { printf("caught %s\n", e.what()); } }
  if (!strcmp(t, "c19b")) { try { ColoquinteParameters p(100); printf("constructed?!\n"); } catch (std::exception &e) { printf("caught %s\n", e.what()); } }
  if (!strcmp(t, "c07a")) { RowLegalizer leg(0, 100000); leg.push(50000, 50000); long long c = leg.push(50000, 50000); printf("cost %lld\n", c); }
  if (!strcmp(t, "c07b")) { auto v = computeSubdivisions(-3932160, 391928, 4096); printf("%zu %d %d\n", v.size(), v.front(), v.back()); }
  if (!strcmp(t, "c19c")) { Circuit c(2); c.setCellWidth({2,2}); c.setCellHeight({1,1}); c.addNet({0, 7}, {0,0}, {0,0}); printf("addNet accepted cell 7 of 2\n"); printf("hpwl %lld\n", c.hpwl()); }
  if (!strcmp(t, "c04")) {
    // rows: y=0 N, y=10 FS. A (NW) low, B (ANY) high; nets pull A up and B down.
    Circuit c(4); c.setCellWidth({4,4,0,0}); c.setCellHeight({10,10,0,0});
    c.setCellIsFixed({false,false,true,true}); c.setCellX({8,8,10,10}); c.setCellY({0,10,19,0});
    c.setCellRowPolarity({CellRowPolarity::NW, CellRowPolarity::ANY, CellRowPolarity::ANY, CellRowPolarity::ANY});
    c.setRows({Row(0,20,0,10,CellOrientation::N), Row(0,20,10,20,CellOrientation::FS)});
    c.addNet({0,2},{2,0},{5,0}); c.addNet({1,3},{2,0},{5,0});
    show(c, "before"); c.legalize(ColoquinteParameters(3)); show(c, "legal"); c.placeDetailed(ColoquinteParameters(3)); show(c, "detailed");
  }
  if (!strcmp(t, "c02")) {
    Circuit c(2); c.setCellWidth({20,4}); c.setCellHeight({10,10}); c.setCellX({2,14}); c.setCellY({0,0});
    c.setCellOrientation({CellOrientation::E, CellOrientation::N});
    c.setupRows(Rectangle(0,40,0,30),10,false);
    c.addNet({0,1},{0,0},{0,0});
    show(c, "before"); try { c.legalize(ColoquinteParameters(3)); show(c, "legal"); } catch (std::exception &e) { printf("legalize threw %s\n", e.what()); return 0; }
    try { c.placeDetailed(ColoquinteParameters(3)); show(c, "detailed"); } catch (std::exception &e) { printf("placeDetailed THREW on a circuit legalize accepts: %s\n", e.what()); }
  }
  if (!strcmp(t, "c11")) {
    Circuit c(2); c.setCellWidth({10,1}); c.setCellHeight({10,10}); c.setCellX({0,10}); c.setCellY({0,0});
    c.setupRows(Rectangle(0,20,0,10),10,false);
    ColoquinteParameters p(3); p.legalization.orderingWidth = 2.0; p.check();
    show(c, "legal input"); c.legalize(p); show(c, "after legalize(orderingWidth=2)");
  }
  return 0;
}
