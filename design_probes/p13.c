#include <stdbool.h>
typedef struct { bool isInUse_; int *cellX_; int cellX__size; bool hasCellSizeUpdate_; } Circuit;
typedef struct { int dummy; } ColoquinteParameters; typedef struct { int has; } OptCallback;
int verif_exc;
#define isInUse_ (this->isInUse_)
/* callee: replaced by its contract; may throw */
void GlobalPlacer_place(Circuit *circuit, const ColoquinteParameters *params, const OptCallback *callback)
__CPROVER_requires(__CPROVER_is_fresh(circuit, sizeof(*circuit)))
__CPROVER_assigns(verif_exc, circuit->hasCellSizeUpdate_)
__CPROVER_ensures(verif_exc == 0 || verif_exc == 1)
;
void Circuit_placeGlobal(Circuit *this, const ColoquinteParameters *params, const OptCallback *callback)
__CPROVER_requires(__CPROVER_is_fresh(this, sizeof(*this)) && verif_exc == 0)
__CPROVER_assigns(isInUse_, verif_exc, this->hasCellSizeUpdate_)
__CPROVER_ensures(isInUse_ == false)
/* body verbatim coloquinte.cpp:595 with `GlobalPlacer::place(*this,` -> `GlobalPlacer_place(this,` and propagation inserted */
{
  isInUse_ = true;
  GlobalPlacer_place(this, params, callback); if (verif_exc) return;
  isInUse_ = false;
}
void harness(void) { Circuit *c; ColoquinteParameters *p; OptCallback *cb; Circuit_placeGlobal(c, p, cb); }
