#include <stdbool.h>
#define assert(e) __CPROVER_assert(e, "repo assert: " #e)
#define std_min(a,b) ((a)<(b)?(a):(b))
typedef struct { int begin_, end_; int *constrainingPos_; int constrainingPos__size; int *cumWidth_; } RowLegalizer;
#define begin_ (this->begin_)
#define end_ (this->end_)
#define constrainingPos_ (this->constrainingPos_)
#define cumWidth_ (this->cumWidth_)
#define NMAX 4096
#define LIM (1<<22)
/* capture-free lambda of getPlacement, extracted as a static function (rule 7) */
static int getPlacement_lambda0(int a, int b) { return std_min(a, b); }
int ghost_g;
/* named invariant I_row(k), instantiated at the loop index */
#define I_ROW(k) (cumWidth_[k] >= 0 && cumWidth_[k] < cumWidth_[(k) + 1] && cumWidth_[(k) + 1] <= end_ - begin_ && begin_ <= constrainingPos_[k] && constrainingPos_[k] <= end_ - cumWidth_[(k) + 1])
/* std::vector<int> getPlacement() const  -> out-parameter ret (same size as constrainingPos_) */
void RowLegalizer_getPlacement(const RowLegalizer *this, int *finalAbsPos, int *ret)
__CPROVER_requires(__CPROVER_is_fresh(this, sizeof(*this)) && 1 <= this->constrainingPos__size && this->constrainingPos__size <= NMAX)
__CPROVER_requires(__CPROVER_is_fresh(constrainingPos_, sizeof(int) * this->constrainingPos__size) && __CPROVER_is_fresh(cumWidth_, sizeof(int) * (this->constrainingPos__size + 1)))
__CPROVER_requires(__CPROVER_is_fresh(finalAbsPos, sizeof(int) * this->constrainingPos__size) && __CPROVER_is_fresh(ret, sizeof(int) * this->constrainingPos__size))
__CPROVER_requires(-LIM <= begin_ && begin_ <= end_ && end_ <= LIM && 0 <= ghost_g && ghost_g < this->constrainingPos__size)
__CPROVER_assigns(__CPROVER_object_whole(finalAbsPos), __CPROVER_object_whole(ret))
__CPROVER_ensures(begin_ <= ret[ghost_g] && ret[ghost_g] + (cumWidth_[ghost_g + 1] - cumWidth_[ghost_g]) <= end_)
__CPROVER_ensures(ghost_g + 1 < this->constrainingPos__size ==> ret[ghost_g] + (cumWidth_[ghost_g + 1] - cumWidth_[ghost_g]) <= ret[ghost_g + 1])
{
  const int n = this->constrainingPos__size;
  /* auto finalAbsPos = constrainingPos_;  (vector copy, modelled as an element-wise copy loop) */
  for (int k = 0; k < n; ++k)
  __CPROVER_assigns(k, __CPROVER_object_whole(finalAbsPos))
  __CPROVER_loop_invariant(0 <= k && k <= n)
  __CPROVER_loop_invariant(ghost_g < k ==> finalAbsPos[ghost_g] == constrainingPos_[ghost_g])
  __CPROVER_loop_invariant(ghost_g + 1 < k ==> finalAbsPos[ghost_g + 1] == constrainingPos_[ghost_g + 1])
  __CPROVER_decreases(n - k)
  { finalAbsPos[k] = constrainingPos_[k]; }
  /* std::partial_sum(rbegin, rend, rbegin, lambda): trusted model = right-to-left fold with accumulator */
  __CPROVER_assume(I_ROW(n - 1));                       /* INSTANTIATE(I_row, n-1) */
  __CPROVER_assume(I_ROW(ghost_g));                      /* INSTANTIATE(I_row, ghost_g) */
  if (ghost_g + 1 < n) __CPROVER_assume(I_ROW(ghost_g + 1));
  int acc = finalAbsPos[n - 1];
  int ghost_fg1 = (ghost_g + 1 < n) ? finalAbsPos[ghost_g + 1] : 0; /* ghost: final value of fin[g+1] once it has been processed */
  const int cg = constrainingPos_[ghost_g];
  for (int i = n - 2; i >= 0; --i)
  __CPROVER_assigns(i, acc, ghost_fg1, __CPROVER_object_whole(finalAbsPos))
  __CPROVER_loop_invariant(-1 <= i && i <= n - 2 && acc >= begin_ && acc == finalAbsPos[i + 1])
  __CPROVER_loop_invariant(ghost_g > i ==> (begin_ <= finalAbsPos[ghost_g] && finalAbsPos[ghost_g] <= cg))
  __CPROVER_loop_invariant(ghost_g <= i ==> finalAbsPos[ghost_g] == cg)
  __CPROVER_loop_invariant((ghost_g + 1 > i && ghost_g + 1 < n) ==> finalAbsPos[ghost_g + 1] == ghost_fg1)
  __CPROVER_loop_invariant((ghost_g > i && ghost_g + 1 < n) ==> finalAbsPos[ghost_g] <= ghost_fg1)
  __CPROVER_decreases(i + 1)
  {
    __CPROVER_assume(I_ROW(i));                          /* INSTANTIATE(I_row, i) */
    acc = getPlacement_lambda0(acc, finalAbsPos[i]);
    finalAbsPos[i] = acc;
    if (i == ghost_g + 1) ghost_fg1 = acc; /* ghost */
  }
  /* remaining body verbatim (row_legalizer.cpp:88), `ret` is the out-parameter */
  for (int i = 0; i < n; ++i)
  __CPROVER_assigns(i, __CPROVER_object_whole(ret))
  __CPROVER_loop_invariant(0 <= i && i <= n)
  __CPROVER_loop_invariant(ghost_g < i ==> ret[ghost_g] == finalAbsPos[ghost_g] + cumWidth_[ghost_g])
  __CPROVER_loop_invariant(ghost_g + 1 < i ==> ret[ghost_g + 1] == finalAbsPos[ghost_g + 1] + cumWidth_[ghost_g + 1])
  __CPROVER_decreases(n - i)
  {
    __CPROVER_assume(I_ROW(i));                          /* INSTANTIATE(I_row, i): cumWidth_ magnitudes */
    ret[i] = finalAbsPos[i] + cumWidth_[i];
  }
}
void harness(void) { RowLegalizer *t; int *f, *r; RowLegalizer_getPlacement(t, f, r); }
