#!/usr/bin/env python3
"""probe: extract a function body verbatim from a C++ file by its declarator text"""
import re, sys
def strip_scan(src, i):
    """yield (pos, ch) skipping comments / string / char literals, starting at i"""
    n=len(src)
    while i<n:
        c=src[i]
        if src.startswith('//',i):
            i=src.index('\n',i); continue
        if src.startswith('/*',i):
            i=src.index('*/',i)+2; continue
        if c=='"' or c=="'":
            q=c; i+=1
            while src[i]!=q:
                if src[i]=='\\': i+=1
                i+=1
            i+=1; continue
        yield i,c
        i+=1
def extract(src, head_regex):
    m=re.search(head_regex, src)
    if not m: raise SystemExit('MUST-FIRE: head not found: '+head_regex)
    if re.search(head_regex, src[m.end():]): raise SystemExit('ambiguous head: '+head_regex)
    # find first '{' at paren depth 0 after the match
    depth=0; start=None
    for i,c in strip_scan(src, m.start()):
        if c=='(' : depth+=1
        elif c==')': depth-=1
        elif c==';' and depth==0: raise SystemExit('declaration, not definition')
        elif c=='{' and depth==0: start=i; break
    d=0
    for i,c in strip_scan(src, start):
        if c=='{': d+=1
        elif c=='}':
            d-=1
            if d==0: return src[m.start():start], src[start:i+1], src.count('\n',0,start)+1
if __name__=='__main__':
    src=open(sys.argv[1]).read()
    sig,body,line=extract(src, sys.argv[2])
    print('// line',line,'sig:',' '.join(sig.split())); print(body)
