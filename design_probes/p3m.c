#include <stdbool.h>
#include <stdlib.h>
typedef enum { CellOrientation_N = 0, CellOrientation_S = 1, CellOrientation_W = 2, CellOrientation_E = 3, CellOrientation_FN = 4, CellOrientation_FS = 5, CellOrientation_FW = 6, CellOrientation_FE = 7, CellOrientation_INVALID = 8, CellOrientation_UNKNOWN = 9 } CellOrientation;
typedef enum { CellRowPolarity_ANY, CellRowPolarity_SAME, CellRowPolarity_OPPOSITE, CellRowPolarity_NW, CellRowPolarity_SE } CellRowPolarity;
typedef struct { int minX, maxX, minY, maxY; CellOrientation orientation; } Row;
typedef struct {
  Row *rows_; int rows__size;
  int *rowFirstCell_; int *rowLastCell_;
  int *cellWidth_; int cellWidth__size;
  int *cellPred_; int *cellNext_; int *cellRow_; int *cellX_; int *cellY_;
  CellOrientation *cellOrientation_; CellRowPolarity *cellRowPolarity_;
} DetailedPlacement;
#define NMAX 1000
#define RMAX 100
int verif_thrown;
/* throw lowering for partial-correctness proofs: a throwing path does not return normally */
#define THROW_runtime_error(msg) do { verif_thrown = 1; __CPROVER_assume(0); } while (0)

/* member-name macros */
#define rows_ (this->rows_)
#define rowFirstCell_ (this->rowFirstCell_)
#define rowLastCell_ (this->rowLastCell_)
#define cellWidth_ (this->cellWidth_)
#define cellPred_ (this->cellPred_)
#define cellNext_ (this->cellNext_)
#define cellRow_ (this->cellRow_)
#define cellX_ (this->cellX_)
#define cellY_ (this->cellY_)
#define cellOrientation_ (this->cellOrientation_)
#define cellRowPolarity_ (this->cellRowPolarity_)
/* inline accessors from the header: bodies verbatim; asserts kept as obligations */
#define assert(e) __CPROVER_assert(e, "repo assert: " #e)
#define nbRows() (this->rows__size)
#define nbCells() (this->cellWidth__size)
static inline bool isPlaced(const DetailedPlacement *this, int cell) { return cellRow_[cell] != -1; }
static inline int cellWidth(const DetailedPlacement *this, int cell) { return cellWidth_[cell]; }
static inline int cellNext(const DetailedPlacement *this, int c) { assert(c >= 0 && c < nbCells()); return cellNext_[c]; }
static inline int cellX(const DetailedPlacement *this, int c) { assert(c >= 0 && c < nbCells()); return cellX_[c]; }
static inline int rowFirstCell(const DetailedPlacement *this, int row) { assert(row >= 0 && row < nbRows()); return rowFirstCell_[row]; }
#define isPlaced(c) isPlaced(this, c)
#define cellWidth(c) cellWidth(this, c)
#define cellNext(c) cellNext(this, c)
#define cellX(c) cellX(this, c)
#define rowFirstCell(r) rowFirstCell(this, r)

CellOrientation cellOrientationInRow(CellRowPolarity cellPolarity, CellOrientation rowOrientation)
__CPROVER_requires(cellPolarity >= 0 && cellPolarity <= 4)
__CPROVER_ensures(cellPolarity == CellRowPolarity_ANY ==> __CPROVER_return_value == CellOrientation_UNKNOWN)
__CPROVER_ensures(cellPolarity == CellRowPolarity_SAME ==> __CPROVER_return_value == rowOrientation)
__CPROVER_assigns()
;

int DetailedPlacement_siteBegin(const DetailedPlacement *this, int row, int pred)
/* body verbatim detailed_placement.cpp:303 */
{
  return pred == -1 ? rows_[row].minX : cellX(pred) + cellWidth(pred);
}
int DetailedPlacement_siteEnd(const DetailedPlacement *this, int row, int pred)
{
  int next = pred == -1 ? rowFirstCell(row) : cellNext(pred);
  return next == -1 ? rows_[row].maxX : cellX(next);
}
#define siteBegin(r,p) DetailedPlacement_siteBegin(this, r, p)
#define siteEnd(r,p) DetailedPlacement_siteEnd(this, r, p)
bool DetailedPlacement_canPlace(const DetailedPlacement *this, int c, int row, int pred, int x)
{
  if (isPlaced(c)) {
    THROW_runtime_error("Cannot attempt to place already placed cell");
  }
  return x >= siteBegin(row, pred) && x + cellWidth(c) <= siteEnd(row, pred);
}
#define canPlace(c,r,p,x) DetailedPlacement_canPlace(this, c, r, p, x)

/* ---- spec: local well-formedness, written from DetailedPlacement::check() + list symmetry ---- */
static bool in_cells(const DetailedPlacement *this, int k) { return k >= 0 && k < nbCells(); }
static bool LWF(const DetailedPlacement *this, int k) {
  int row = cellRow_[k], pc = cellPred_[k], nc = cellNext_[k];
  if (row < -1 || row >= nbRows()) return false;
  if (row == -1) return pc == -1 && nc == -1;
  if (cellWidth_[k] <= 0) return false;
  if (cellY_[k] != rows_[row].minY) return false;
  if (pc != -1) {
    if (!in_cells(this, pc) || cellRow_[pc] != row || cellNext_[pc] != k) return false;
    if ((long)cellX_[pc] + cellWidth_[pc] > cellX_[k]) return false;
  } else {
    if (rowFirstCell_[row] != k || cellX_[k] < rows_[row].minX) return false;
  }
  if (nc != -1) {
    if (!in_cells(this, nc) || cellRow_[nc] != row || cellPred_[nc] != k) return false;
    if ((long)cellX_[k] + cellWidth_[k] > cellX_[nc]) return false;
  } else {
    if (rowLastCell_[row] != k || (long)cellX_[k] + cellWidth_[k] > rows_[row].maxX) return false;
  }
  return true;
}
static bool RWF(const DetailedPlacement *this, int r) {
  int fc = rowFirstCell_[r], lc = rowLastCell_[r];
  if ((fc == -1) != (lc == -1)) return false;
  if (fc == -1) return true;
  return in_cells(this, fc) && in_cells(this, lc) && cellRow_[fc] == r && cellPred_[fc] == -1 && cellRow_[lc] == r && cellNext_[lc] == -1;
}
static bool MAG(const DetailedPlacement *this, int k) { return cellX_[k] >= -(1<<23) && cellX_[k] <= (1<<23) && cellWidth_[k] <= (1<<23); }


int ghost_g, ghost_r;   /* universally quantified ghost indices (left nondet by the harness) */
static bool DP_fresh(DetailedPlacement *this) {
  return __CPROVER_is_fresh(this, sizeof(*this)) && 1 <= this->cellWidth__size && this->cellWidth__size <= NMAX && 1 <= this->rows__size && this->rows__size <= RMAX
   && __CPROVER_is_fresh(rows_, sizeof(Row) * this->rows__size) && __CPROVER_is_fresh(rowFirstCell_, sizeof(int) * this->rows__size) && __CPROVER_is_fresh(rowLastCell_, sizeof(int) * this->rows__size)
   && __CPROVER_is_fresh(cellWidth_, sizeof(int) * this->cellWidth__size) && __CPROVER_is_fresh(cellPred_, sizeof(int) * this->cellWidth__size) && __CPROVER_is_fresh(cellNext_, sizeof(int) * this->cellWidth__size)
   && __CPROVER_is_fresh(cellRow_, sizeof(int) * this->cellWidth__size) && __CPROVER_is_fresh(cellX_, sizeof(int) * this->cellWidth__size) && __CPROVER_is_fresh(cellY_, sizeof(int) * this->cellWidth__size)
   && __CPROVER_is_fresh(cellOrientation_, sizeof(CellOrientation) * this->cellWidth__size) && __CPROVER_is_fresh(cellRowPolarity_, sizeof(CellRowPolarity) * this->cellWidth__size);
}
/* the quantified invariant, instantiated at the terms the proof of place() needs */
static bool INV_at(const DetailedPlacement *this, int k) { return k == -1 || (in_cells(this, k) && LWF(this, k) && MAG(this, k)); }
static bool INV_inst_place(const DetailedPlacement *this, int c, int row, int pred) {
  int g = ghost_g, gr = ghost_r;
  if (!(0 <= g && g < nbCells() && 0 <= gr && gr < nbRows())) return false;
  int oldnext = pred == -1 ? rowFirstCell_[row] : cellNext_[pred];
  return INV_at(this, c) && INV_at(this, g) && INV_at(this, pred) && RWF(this, row) && RWF(this, gr)
    && (cellRow_[g] == -1 || RWF(this, cellRow_[g])) && INV_at(this, oldnext)
    && INV_at(this, cellPred_[g]) && INV_at(this, cellNext_[g]) && INV_at(this, rowFirstCell_[gr]) && INV_at(this, rowLastCell_[gr]);
}
void DetailedPlacement_place(DetailedPlacement *this, int c, int row, int pred, int x)
__CPROVER_requires(DP_fresh(this))
__CPROVER_requires(0 <= c && c < nbCells() && 0 <= row && row < nbRows() && (pred == -1 || (0 <= pred && pred < nbCells())))
__CPROVER_requires(cellRowPolarity_[c] >= 0 && cellRowPolarity_[c] <= 4 && cellWidth_[c] > 0 && cellWidth_[c] <= (1<<23))
__CPROVER_requires(pred == -1 || cellRow_[pred] == row)
__CPROVER_requires(x >= -(1<<23) && x <= (1<<23))
__CPROVER_requires(INV_inst_place(this, c, row, pred))
__CPROVER_assigns(cellRow_[c], cellOrientation_[c], cellPred_[c], cellNext_[c], cellX_[c], cellY_[c], rowFirstCell_[row], rowLastCell_[row], __CPROVER_object_whole(cellNext_), __CPROVER_object_whole(cellPred_), verif_thrown)
__CPROVER_ensures(LWF(this, ghost_g))
__CPROVER_ensures(RWF(this, ghost_r))
__CPROVER_ensures(cellRow_[c] == row && cellX_[c] == x && cellPred_[c] == pred)
__CPROVER_ensures(ghost_g == c || cellOrientation_[ghost_g] == __CPROVER_old(cellOrientation_[ghost_g]))
/* body verbatim detailed_placement.cpp:355 */
{
  if (!canPlace(c, row, pred, x)) {
    THROW_runtime_error("Cannot place the cell");
  }
  cellRow_[c] = row;
  CellOrientation orient =
      cellOrientationInRow(cellRowPolarity_[c], rows_[row].orientation);
  if (orient != CellOrientation_UNKNOWN) {
    cellOrientation_[c] = orient;
  }
  int next = pred == -1 ? rowFirstCell(row) : cellNext(pred);
  if (pred == -1) {
    rowFirstCell_[row] = c;
  } else {
    cellNext_[pred] = c;
  }
  cellPred_[c] = pred;
  if (next == -1) {
    rowLastCell_[row] = c;
  } else {
    /* MUT */ ;
  }
  cellNext_[c] = next;
  cellX_[c] = x;
  cellY_[c] = rows_[row].minY;
}

int nondet_int(void);

void harness(void) { DetailedPlacement *t; int c, row, pred, x; DetailedPlacement_place(t, c, row, pred, x); }
