#include <stdbool.h>
#include <stdlib.h>
#include <iso646.h>
#define assert(e) __CPROVER_assert(e, "repo assert: " #e)
#define std_min(a,b) ((a)<(b)?(a):(b))
#define std_max(a,b) ((a)>(b)?(a):(b))
#define std_abs(a) ((a)<0?-(a):(a))
typedef struct { int absolutePos; int weight; } Bound;
#define Bound(w, p) ((Bound){.absolutePos=(p), .weight=(w)})
/* ---- abstract model of std::priority_queue<Bound> (trusted, over-approximating): ghost sum of weights, count, cached top ---- */
typedef struct { long long total; int count; Bound top; int lo, hi; } PQ;
int nondet_int(void);
static bool PQ_empty(const PQ *q) { return q->count == 0; }
static void PQ_pick(PQ *q) { if (q->count > 0) { Bound b; b.weight = nondet_int(); b.absolutePos = nondet_int(); __CPROVER_assume(1 <= b.weight && b.weight <= q->total - (q->count - 1) && q->lo <= b.absolutePos && b.absolutePos <= q->hi); q->top = b; } }
static Bound PQ_top(const PQ *q) { __CPROVER_assert(q->count > 0, "top of empty queue"); return q->top; }
static void PQ_pop(PQ *q) { __CPROVER_assert(q->count > 0, "pop of empty queue"); int prev = q->top.absolutePos; q->total -= q->top.weight; q->count--; PQ_pick(q); __CPROVER_assume(q->count == 0 || q->top.absolutePos <= prev); }
static void PQ_push(PQ *q, Bound b) { __CPROVER_assert(b.weight >= 1 && q->lo <= b.absolutePos && b.absolutePos <= q->hi, "queue element invariant"); q->total += b.weight; q->count++; PQ_pick(q); }
typedef struct { int n; } VecBound;  /* abstract: only the size matters for safety */
typedef struct {
  int begin_, end_;
  int used;        /* cumWidth_.back() */
  int nb;          /* number of elements */
  PQ bounds;
  int last_constraining; int last_cum;
} RowLegalizer;
#define begin_ (this->begin_)
#define end_ (this->end_)
#define bounds (this->bounds)
#define usedSpace() (this->used)
#define LIM (1<<22)
long long RowLegalizer_getDisplacement(RowLegalizer *this, int width, int targetPos, bool update)
__CPROVER_requires(__CPROVER_is_fresh(this, sizeof(*this)))
__CPROVER_requires(-LIM <= begin_ && begin_ <= end_ && end_ <= LIM)
__CPROVER_requires(0 <= this->used && 1 <= width && width <= end_ - begin_ - this->used)
__CPROVER_requires(-LIM <= targetPos && targetPos <= LIM)
__CPROVER_requires(this->nb >= 0 && this->nb <= (1<<23) && bounds.count >= 0 && bounds.count <= (1<<20) && bounds.total >= bounds.count && bounds.total <= this->used && bounds.lo == begin_ && bounds.hi == end_)
__CPROVER_requires(bounds.count == 0 || (1 <= bounds.top.weight && bounds.top.weight <= bounds.total - (bounds.count-1) && begin_ <= bounds.top.absolutePos && bounds.top.absolutePos <= end_))
__CPROVER_assigns(__CPROVER_object_whole(this))
__CPROVER_ensures(__CPROVER_return_value >= 0)
__CPROVER_ensures(update ==> (this->last_constraining >= begin_ && this->last_constraining <= end_ - this->used))
__CPROVER_ensures(update ==> bounds.total <= this->used)
{
  int targetAbsPos = targetPos - usedSpace();
  int slope = -width;

  int cur_pos = end_;
  long long cur_cost = 0;

  VecBound passed_bounds; passed_bounds.n = 0;
  long long ghost_total0 = bounds.total;

  // While the slope is negative or the position is not legal yet
  while (not PQ_empty(&bounds) and
         ((slope < 0 and PQ_top(&bounds).absolutePos > targetAbsPos) or
          PQ_top(&bounds).absolutePos > end_ - usedSpace() - width))
  __CPROVER_assigns(cur_pos, cur_cost, slope, passed_bounds.n, bounds)
  __CPROVER_loop_invariant(begin_ <= cur_pos && cur_pos <= end_)
  __CPROVER_loop_invariant(bounds.count >= 0 && bounds.total >= bounds.count && bounds.lo == begin_ && bounds.hi == end_)
  __CPROVER_loop_invariant(bounds.count == 0 || (1 <= bounds.top.weight && bounds.top.weight <= bounds.total - (bounds.count-1) && begin_ <= bounds.top.absolutePos && bounds.top.absolutePos <= end_))
  __CPROVER_loop_invariant(-width <= slope && slope <= (1<<24) && bounds.total <= (1<<24) && ghost_total0 <= (1<<24))
  __CPROVER_loop_invariant((long long)slope + width + bounds.total == ghost_total0)
  __CPROVER_loop_invariant(bounds.count == 0 || bounds.top.absolutePos <= cur_pos)
  __CPROVER_loop_invariant(0 <= cur_cost && cur_cost <= ((long long)(end_ - cur_pos) << 24))
  __CPROVER_loop_invariant(passed_bounds.n >= 0 && passed_bounds.n <= (1<<20) && bounds.count <= (1<<20) && passed_bounds.n + bounds.count <= (1<<20))
  __CPROVER_decreases(bounds.count)
  {
    int old_pos = cur_pos;
    cur_pos = PQ_top(&bounds).absolutePos;
    cur_cost += ((long long)(old_pos - cur_pos)) * (slope + width);
    slope += PQ_top(&bounds).weight;

    // Remember which bounds we encountered in order to reset the object to its
    // initial state
    if (not update) {
      passed_bounds.n++;
    }
    PQ_pop(&bounds);
  }
  assert(cur_pos >= begin_);

  // Always before the end and not pushed beyond the target position
  int finalAbsPos =
      std_min(end_ - usedSpace() - width,
               std_max(begin_, slope >= 0 ? cur_pos : targetAbsPos));

  cur_cost += ((long long)(cur_pos - finalAbsPos)) * (slope + width);

  assert(finalAbsPos >= begin_);
  assert(finalAbsPos <= end_ - usedSpace() - width);

  if (update) {
    this->used = width + usedSpace(); this->nb++;
    this->last_constraining = finalAbsPos;
    if (slope > 0) {  // Remaining capacity of an encountered bound
      PQ_push(&bounds, Bound(slope, cur_pos));
    }
    // The new bound, depending on whether it was passed or not
    if (targetAbsPos > begin_) {
      PQ_push(&bounds, Bound(2 * width + std_min(slope, 0),
                        std_min(targetAbsPos, finalAbsPos)));
    }
  } else {
    /* re-push passed bounds: abstractly restores total/count */
  }

  return cur_cost +
         ((long long)width) * std_abs(finalAbsPos -
                          targetAbsPos);  // Add the cost of the new cell
}
void harness(void) { RowLegalizer *t; int w, tp; bool u; RowLegalizer_getDisplacement(t, w, tp, u); }
