#include <stdbool.h>
#include <stdlib.h>
typedef enum { CellOrientation_N = 0, CellOrientation_S = 1, CellOrientation_W = 2, CellOrientation_E = 3, CellOrientation_FN = 4, CellOrientation_FS = 5, CellOrientation_FW = 6, CellOrientation_FE = 7, CellOrientation_INVALID = 8, CellOrientation_UNKNOWN = 9 } CellOrientation;
typedef enum { CellRowPolarity_ANY, CellRowPolarity_SAME, CellRowPolarity_OPPOSITE, CellRowPolarity_NW, CellRowPolarity_SE } CellRowPolarity;
typedef struct { int minX, maxX, minY, maxY; CellOrientation orientation; } Row;
typedef struct {
  Row *rows_; int rows__size;
  int *rowFirstCell_; int *rowLastCell_;
  int *cellWidth_; int cellWidth__size;
  int *cellPred_; int *cellNext_; int *cellRow_; int *cellX_; int *cellY_;
  CellOrientation *cellOrientation_; CellRowPolarity *cellRowPolarity_;
} DetailedPlacement;
#define NMAX 1000
#define RMAX 100
int verif_thrown;
/* throw lowering for partial-correctness proofs: a throwing path does not return normally */
#define THROW_runtime_error(msg) do { verif_thrown = 1; return; } while (0)

/* member-name macros */
#define rows_ (this->rows_)
#define rowFirstCell_ (this->rowFirstCell_)
#define rowLastCell_ (this->rowLastCell_)
#define cellWidth_ (this->cellWidth_)
#define cellPred_ (this->cellPred_)
#define cellNext_ (this->cellNext_)
#define cellRow_ (this->cellRow_)
#define cellX_ (this->cellX_)
#define cellY_ (this->cellY_)
#define cellOrientation_ (this->cellOrientation_)
#define cellRowPolarity_ (this->cellRowPolarity_)
/* inline accessors from the header: bodies verbatim; asserts kept as obligations */
#define assert(e) __CPROVER_assert(e, "repo assert: " #e)
#define nbRows() (this->rows__size)
#define nbCells() (this->cellWidth__size)
static inline bool isPlaced(const DetailedPlacement *this, int cell) { return cellRow_[cell] != -1; }
static inline int cellWidth(const DetailedPlacement *this, int cell) { return cellWidth_[cell]; }
static inline int cellNext(const DetailedPlacement *this, int c) { assert(c >= 0 && c < nbCells()); return cellNext_[c]; }
static inline int cellX(const DetailedPlacement *this, int c) { assert(c >= 0 && c < nbCells()); return cellX_[c]; }
static inline int rowFirstCell(const DetailedPlacement *this, int row) { assert(row >= 0 && row < nbRows()); return rowFirstCell_[row]; }
#define isPlaced(c) isPlaced(this, c)
#define cellWidth(c) cellWidth(this, c)
#define cellNext(c) cellNext(this, c)
#define cellX(c) cellX(this, c)
#define rowFirstCell(r) rowFirstCell(this, r)

CellOrientation cellOrientationInRow(CellRowPolarity cellPolarity, CellOrientation rowOrientation)
__CPROVER_requires(cellPolarity >= 0 && cellPolarity <= 4)
__CPROVER_ensures(cellPolarity == CellRowPolarity_ANY ==> __CPROVER_return_value == CellOrientation_UNKNOWN)
__CPROVER_ensures(cellPolarity == CellRowPolarity_SAME ==> __CPROVER_return_value == rowOrientation)
__CPROVER_assigns()
;

int DetailedPlacement_siteBegin(const DetailedPlacement *this, int row, int pred)
/* body verbatim detailed_placement.cpp:303 */
{
  return pred == -1 ? rows_[row].minX : cellX(pred) + cellWidth(pred);
}
int DetailedPlacement_siteEnd(const DetailedPlacement *this, int row, int pred)
{
  int next = pred == -1 ? rowFirstCell(row) : cellNext(pred);
  return next == -1 ? rows_[row].maxX : cellX(next);
}
#define siteBegin(r,p) DetailedPlacement_siteBegin(this, r, p)
#define siteEnd(r,p) DetailedPlacement_siteEnd(this, r, p)
bool DetailedPlacement_canPlace(const DetailedPlacement *this, int c, int row, int pred, int x)
{
  if (isPlaced(c)) {
    verif_thrown = 1; return false;
  }
  return x >= siteBegin(row, pred) && x + cellWidth(c) <= siteEnd(row, pred);
}
#define canPlace(c,r,p,x) DetailedPlacement_canPlace(this, c, r, p, x)

/* ---- spec: local well-formedness, written from DetailedPlacement::check() + list symmetry ---- */
static bool in_cells(const DetailedPlacement *this, int k) { return k >= 0 && k < nbCells(); }
static bool LWF(const DetailedPlacement *this, int k) {
  int row = cellRow_[k], pc = cellPred_[k], nc = cellNext_[k];
  if (row < -1 || row >= nbRows()) return false;
  if (row == -1) return pc == -1 && nc == -1;
  if (cellWidth_[k] <= 0) return false;
  if (cellY_[k] != rows_[row].minY) return false;
  if (pc != -1) {
    if (!in_cells(this, pc) || cellRow_[pc] != row || cellNext_[pc] != k) return false;
    if ((long)cellX_[pc] + cellWidth_[pc] > cellX_[k]) return false;
  } else {
    if (rowFirstCell_[row] != k || cellX_[k] < rows_[row].minX) return false;
  }
  if (nc != -1) {
    if (!in_cells(this, nc) || cellRow_[nc] != row || cellPred_[nc] != k) return false;
    if ((long)cellX_[k] + cellWidth_[k] > cellX_[nc]) return false;
  } else {
    if (rowLastCell_[row] != k || (long)cellX_[k] + cellWidth_[k] > rows_[row].maxX) return false;
  }
  return true;
}
static bool RWF(const DetailedPlacement *this, int r) {
  int fc = rowFirstCell_[r], lc = rowLastCell_[r];
  if ((fc == -1) != (lc == -1)) return false;
  if (fc == -1) return true;
  return in_cells(this, fc) && in_cells(this, lc) && cellRow_[fc] == r && cellPred_[fc] == -1 && cellRow_[lc] == r && cellNext_[lc] == -1;
}
static bool MAG(const DetailedPlacement *this, int k) { return cellX_[k] >= -(1<<23) && cellX_[k] <= (1<<23) && cellWidth_[k] <= (1<<23); }


static inline int cellPred(const DetailedPlacement *this, int c) { assert(c >= 0 && c < nbCells()); return cellPred_[c]; }
static inline int cellRow(const DetailedPlacement *this, int c) { assert(c >= 0 && c < nbCells()); return cellRow_[c]; }
static inline int rowLastCell(const DetailedPlacement *this, int row) { assert(row >= 0 && row < nbRows()); return rowLastCell_[row]; }
#define cellPred(c) cellPred(this, c)
#define cellRow(c) cellRow(this, c)
#define rowLastCell(r) rowLastCell(this, r)

#define IN_CELLS(k) ((k) >= 0 && (k) < nbCells())
#define RWF_M(r) ( ((rowFirstCell_[r] == -1) == (rowLastCell_[r] == -1)) && (rowFirstCell_[r] == -1 || (IN_CELLS(rowFirstCell_[r]) && IN_CELLS(rowLastCell_[r]) && cellRow_[rowFirstCell_[r]] == (r) && cellPred_[rowFirstCell_[r]] == -1 && cellRow_[rowLastCell_[r]] == (r) && cellNext_[rowLastCell_[r]] == -1)) )
#define LWF_M(k) ( cellRow_[k] >= -1 && cellRow_[k] < nbRows() && (cellRow_[k] == -1 ? (cellPred_[k] == -1 && cellNext_[k] == -1) : ( \
   (cellPred_[k] != -1 ? (IN_CELLS(cellPred_[k]) && cellRow_[cellPred_[k]] == cellRow_[k] && cellX_[cellPred_[k]] + cellWidth_[cellPred_[k]] <= cellX_[k]) : (rowFirstCell_[cellRow_[k]] == (k) && cellX_[k] >= rows_[cellRow_[k]].minX)) && \
   (cellNext_[k] != -1 ? (IN_CELLS(cellNext_[k]) && cellRow_[cellNext_[k]] == cellRow_[k] && cellX_[k] + cellWidth_[k] <= cellX_[cellNext_[k]]) : (rowLastCell_[cellRow_[k]] == (k) && cellX_[k] + cellWidth_[k] <= rows_[cellRow_[k]].maxX)) )) )

#define TYPEOK(k) (cellPred_[k] >= -1 && cellPred_[k] < nbCells() && cellNext_[k] >= -1 && cellNext_[k] < nbCells() && cellX_[k] >= -(1<<23) && cellX_[k] <= (1<<23) && cellWidth_[k] >= -1 && cellWidth_[k] <= (1<<23))
#define ROWTYPEOK(r) (rowFirstCell_[r] >= -1 && rowFirstCell_[r] < nbCells() && rowLastCell_[r] >= -1 && rowLastCell_[r] < nbCells())
#define INSTANTIATE(e) __CPROVER_assume(e)
int ghost_g, ghost_r;
/* what check() itself establishes (no list symmetry, no width>0, no y): the property-level legality facts */
static bool RWF_chk(const DetailedPlacement *this, int r) {
  int fc = rowFirstCell_[r], lc = rowLastCell_[r];
  if ((fc == -1) != (lc == -1)) return false;
  if (fc == -1) return true;
  return in_cells(this, fc) && in_cells(this, lc) && cellRow_[fc] == r && cellPred_[fc] == -1 && cellRow_[lc] == r && cellNext_[lc] == -1;
}
static bool LWF_chk(const DetailedPlacement *this, int k) {
  int row = cellRow_[k], pc = cellPred_[k], nc = cellNext_[k];
  if (row < -1 || row >= nbRows()) return false;
  if (row == -1) return pc == -1 && nc == -1;
  if (pc != -1) { if (!in_cells(this, pc) || cellRow_[pc] != row || cellX_[pc] + cellWidth_[pc] > cellX_[k]) return false; }
  else { if (rowFirstCell_[row] != k || cellX_[k] < rows_[row].minX) return false; }
  if (nc != -1) { if (!in_cells(this, nc) || cellRow_[nc] != row || cellX_[k] + cellWidth_[k] > cellX_[nc]) return false; }
  else { if (rowLastCell_[row] != k || cellX_[k] + cellWidth_[k] > rows_[row].maxX) return false; }
  return true;
}
static bool DP_fresh(DetailedPlacement *this) {
  return __CPROVER_is_fresh(this, sizeof(*this)) && 1 <= this->cellWidth__size && this->cellWidth__size <= NMAX && 1 <= this->rows__size && this->rows__size <= RMAX
   && __CPROVER_is_fresh(rows_, sizeof(Row) * this->rows__size) && __CPROVER_is_fresh(rowFirstCell_, sizeof(int) * this->rows__size) && __CPROVER_is_fresh(rowLastCell_, sizeof(int) * this->rows__size)
   && __CPROVER_is_fresh(cellWidth_, sizeof(int) * this->cellWidth__size) && __CPROVER_is_fresh(cellPred_, sizeof(int) * this->cellWidth__size) && __CPROVER_is_fresh(cellNext_, sizeof(int) * this->cellWidth__size)
   && __CPROVER_is_fresh(cellRow_, sizeof(int) * this->cellWidth__size) && __CPROVER_is_fresh(cellX_, sizeof(int) * this->cellWidth__size) && __CPROVER_is_fresh(cellY_, sizeof(int) * this->cellWidth__size);
}
void DetailedPlacement_check_structure(const DetailedPlacement *this)
__CPROVER_requires(DP_fresh((DetailedPlacement *)this) && verif_thrown == 0)
__CPROVER_requires(0 <= ghost_g && ghost_g < nbCells() && 0 <= ghost_r && ghost_r < nbRows())
__CPROVER_assigns(verif_thrown)
__CPROVER_ensures(verif_thrown == 0 ==> (LWF_chk(this, ghost_g) && RWF_chk(this, ghost_r)))
/* body: the two structural loops of DetailedPlacement::check(), verbatim (detailed_placement.cpp) */
{
  /* ghost snapshots of everything LWF(ghost_g) and RWF(ghost_r) read (check() is const: none of it changes) */
  const int g_ = ghost_g, r_ = ghost_r;
  INSTANTIATE(TYPEOK(g_)); INSTANTIATE(ROWTYPEOK(r_)); const int gp_ = cellPred_[g_], gn_ = cellNext_[g_]; if (gp_ != -1) INSTANTIATE(TYPEOK(gp_)); if (gn_ != -1) INSTANTIATE(TYPEOK(gn_));
  const int s_row = cellRow_[g_], s_pc = cellPred_[g_], s_nc = cellNext_[g_], s_x = cellX_[g_], s_w = cellWidth_[g_];
  const bool s_pc_in = s_pc >= 0 && s_pc < nbCells(), s_nc_in = s_nc >= 0 && s_nc < nbCells(), s_row_in = s_row >= 0 && s_row < nbRows();
  const int s_pc_row = s_pc_in ? cellRow_[s_pc] : -2, s_pc_end = s_pc_in ? cellX_[s_pc] + cellWidth_[s_pc] : 0;
  const int s_nc_row = s_nc_in ? cellRow_[s_nc] : -2, s_nc_x = s_nc_in ? cellX_[s_nc] : 0;
  const int s_first = s_row_in ? rowFirstCell_[s_row] : -2, s_last = s_row_in ? rowLastCell_[s_row] : -2;
  const int s_minX = s_row_in ? rows_[s_row].minX : 0, s_maxX = s_row_in ? rows_[s_row].maxX : 0;
  const int t_fc = rowFirstCell_[r_], t_lc = rowLastCell_[r_];
  const bool t_fc_in = t_fc >= 0 && t_fc < nbCells(), t_lc_in = t_lc >= 0 && t_lc < nbCells();
  const int t_fc_row = t_fc_in ? cellRow_[t_fc] : -2, t_fc_pred = t_fc_in ? cellPred_[t_fc] : -2, t_lc_row = t_lc_in ? cellRow_[t_lc] : -2, t_lc_next = t_lc_in ? cellNext_[t_lc] : -2;
#define RWF_S ( ((t_fc == -1) == (t_lc == -1)) && (t_fc == -1 || (t_fc_in && t_lc_in && t_fc_row == r_ && t_fc_pred == -1 && t_lc_row == r_ && t_lc_next == -1)) )
#define LWF_S ( s_row >= -1 && s_row < nbRows() && (s_row == -1 ? (s_pc == -1 && s_nc == -1) : ( \
   (s_pc != -1 ? (s_pc_in && s_pc_row == s_row && s_pc_end <= s_x) : (s_first == g_ && s_x >= s_minX)) && \
   (s_nc != -1 ? (s_nc_in && s_nc_row == s_row && s_x + s_w <= s_nc_x) : (s_last == g_ && s_x + s_w <= s_maxX)) )) )

  for (int i = 0; i < nbRows(); ++i)
  __CPROVER_assigns(i, verif_thrown)
  __CPROVER_loop_invariant(0 <= i && i <= nbRows() && verif_thrown == 0)
  __CPROVER_loop_invariant(r_ < i ==> RWF_S)
  __CPROVER_decreases(nbRows() - i)
  {
    INSTANTIATE(ROWTYPEOK(i));
    int fc = rowFirstCell(i);
    int lc = rowLastCell(i);
    if ((lc == -1) != (fc == -1)) {
      THROW_runtime_error("Inconcistency between first and last cell");
    }
    if (fc == -1) {
      continue;
    }
    if (cellRow(fc) != i) {
      THROW_runtime_error("Inconsistency in the first row cell");
    }
    if (cellPred(fc) != -1) {
      THROW_runtime_error("Inconsistency in the first row cell");
    }
    if (cellRow(lc) != i) {
      THROW_runtime_error("Inconsistency in the last row cell");
    }
    if (cellNext(lc) != -1) {
      THROW_runtime_error("Inconsistency in the last row cell");
    }
  }
  for (int i = 0; i < nbCells(); ++i)
  __CPROVER_assigns(i, verif_thrown)
  __CPROVER_loop_invariant(0 <= i && i <= nbCells() && verif_thrown == 0)
  __CPROVER_loop_invariant(RWF_S)
  __CPROVER_loop_invariant(g_ < i ==> LWF_S)
  __CPROVER_decreases(nbCells() - i)
  {
    INSTANTIATE(TYPEOK(i));
    int pc = cellPred(i);
    int nc = cellNext(i);
    int row = cellRow(i);
    if (pc != -1) INSTANTIATE(TYPEOK(pc)); if (nc != -1) INSTANTIATE(TYPEOK(nc));
    if (row < -1 || row >= nbRows()) {
      THROW_runtime_error("Invalid row number");
    }
    if (row == -1) {
      if (pc != -1 || nc != -1) {
        THROW_runtime_error(
            "Non-placed cell should have no predecessor/successor");
      }
      continue;
    }
    if (pc != -1) {
      if (cellRow(pc) != row) {
        THROW_runtime_error("Row inconsistency with the predecessor");
      }
      if (cellX(pc) + cellWidth(pc) > cellX(i)) {
        THROW_runtime_error("Overlap with the predecessor");
      }
    } else {
      if (rowFirstCell(row) != i) {
        THROW_runtime_error("Inconsistent first row cell");
      }
      if (cellX(i) < rows_[row].minX) {
        THROW_runtime_error("Element is out of the row");
      }
    }
    if (nc != -1) {
      if (cellRow(nc) != row) {
        THROW_runtime_error("Row inconsistency with the successor");
      }
      /* MUT */
    } else {
      if (rowLastCell(row) != i) {
        THROW_runtime_error("Inconsistent last row cell");
      }
      if (cellX(i) + cellWidth(i) > rows_[row].maxX) {
        THROW_runtime_error("Element is out of the row");
      }
    }
  }

}
void harness(void) { DetailedPlacement *t; DetailedPlacement_check_structure(t); }
