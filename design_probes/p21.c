#include <stdbool.h>
#define assert(e) __CPROVER_assert(e, "repo assert: " #e)
typedef struct { int first, second; } PairII;
typedef struct { int *cellPos_; int cellPos__size; int *cellLimits_; int *cellNets_; int npins; PairII *netMinMaxPos_; int nnets; long long value_; } IncrNetModel;
#define cellPos_ (this->cellPos_)
#define cellLimits_ (this->cellLimits_)
#define cellNets_ (this->cellNets_)
#define netMinMaxPos_ (this->netMinMaxPos_)
#define value_ (this->value_)
#define nbCells() (this->cellPos__size)
#define nbNets() (this->nnets)
static inline int nbCellPins(const IncrNetModel *this, int cell) { assert(cell >= 0); assert(cell < nbCells()); return cellLimits_[cell + 1] - cellLimits_[cell]; }
#define nbCellPins(c) nbCellPins(this, c)
static inline int pinNet(const IncrNetModel *this, int cell, int pin) { assert(pin >= 0); assert(pin < nbCellPins(cell)); return cellNets_[cellLimits_[cell] + pin]; }
#define pinNet(c, p) pinNet(this, c, p)
#define NMAX 4096
#define LIM (1<<24)
/* ghost: an arbitrary net G, an arbitrary pin of it given by its cell g_qc and offset g_qoff (the harness ties them to the CSR arrays);
   g_wT: the slot of G in the cell's net list when the ghost pin sits on `cell` (transpose-completeness witness) */
int G, g_qc, g_qoff, g_wT;
void IncrNetModel_recomputeNet(IncrNetModel *this, int net)
__CPROVER_requires(0 <= net && net < nbNets())
__CPROVER_assigns(netMinMaxPos_[net], value_)
__CPROVER_ensures(net == G ==> (netMinMaxPos_[G].first <= cellPos_[g_qc] + g_qoff && cellPos_[g_qc] + g_qoff <= netMinMaxPos_[G].second))
;
#define recomputeNet(n) IncrNetModel_recomputeNet(this, n)
static bool fresh_model(IncrNetModel *this) {
  return __CPROVER_is_fresh(this, sizeof(*this)) && 1 <= nbCells() && nbCells() <= NMAX && 1 <= nbNets() && nbNets() <= NMAX && 0 <= this->npins && this->npins <= NMAX
    && __CPROVER_is_fresh(cellPos_, sizeof(int) * nbCells()) && __CPROVER_is_fresh(cellLimits_, sizeof(int) * (nbCells() + 1))
    && __CPROVER_is_fresh(cellNets_, sizeof(int) * this->npins) && __CPROVER_is_fresh(netMinMaxPos_, sizeof(PairII) * nbNets());
}
void IncrNetModel_updateCellPos(IncrNetModel *this, int cell, int pos)
__CPROVER_requires(fresh_model(this) && 0 <= cell && cell < nbCells() && -LIM <= pos && pos <= LIM)
__CPROVER_requires(0 <= cellLimits_[cell] && cellLimits_[cell] <= cellLimits_[cell + 1] && cellLimits_[cell + 1] <= this->npins)
__CPROVER_requires(0 <= G && G < nbNets() && 0 <= g_qc && g_qc < nbCells() && -LIM <= g_qoff && g_qoff <= LIM && -LIM <= cellPos_[g_qc] && cellPos_[g_qc] <= LIM)
/* J(G, ghost pin) before the call */
__CPROVER_requires(netMinMaxPos_[G].first <= cellPos_[g_qc] + g_qoff && cellPos_[g_qc] + g_qoff <= netMinMaxPos_[G].second)
/* T: if the ghost pin sits on `cell`, G is listed among the cell's nets at slot g_wT */
__CPROVER_requires(g_qc == cell ==> (cellLimits_[cell] <= g_wT && g_wT < cellLimits_[cell + 1] && cellNets_[g_wT] == G))
__CPROVER_assigns(cellPos_[cell], __CPROVER_object_whole(netMinMaxPos_), value_)
__CPROVER_ensures(cellPos_[cell] == pos)
__CPROVER_ensures(netMinMaxPos_[G].first <= cellPos_[g_qc] + g_qoff && cellPos_[g_qc] + g_qoff <= netMinMaxPos_[G].second)
/* body verbatim incr_net_model.cpp:254 */
{
  // TODO: optimize performance: do not recompute every connected net
  cellPos_[cell] = pos;
  const int gpos = cellPos_[g_qc] + g_qoff;            /* ghost snapshot (cellPos_ is not assigned in the loop) */
  const int base = cellLimits_[cell], npc = cellLimits_[cell + 1] - cellLimits_[cell];
  const bool on_cell = g_qc == cell;
  for (int i = 0; i < nbCellPins(cell); ++i)
  __CPROVER_assigns(i, __CPROVER_object_whole(netMinMaxPos_), value_)
  __CPROVER_loop_invariant(0 <= i && i <= npc)
  __CPROVER_loop_invariant((!on_cell || i > g_wT - base) ==> (netMinMaxPos_[G].first <= gpos && gpos <= netMinMaxPos_[G].second))
  __CPROVER_decreases(npc - i)
  {
    int net = pinNet(cell, i);
    __CPROVER_assume(0 <= net && net < nbNets());   /* INSTANTIATE(cellNets_in_range, base + i) */
    recomputeNet(net);
  }
}
void harness(void) { IncrNetModel *m; int c, p; IncrNetModel_updateCellPos(m, c, p); }
