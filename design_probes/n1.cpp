#include "place_detailed/row_legalizer.hpp"
#include <cstdio>
#include <vector>
#include <cstdlib>
#include <climits>
using namespace coloquinte;
// brute force optimum for ordered placement
static long long best;
static void rec(int b,int e,const std::vector<int>&w,const std::vector<int>&t,size_t i,int pos,long long cost){
  if(cost>=best) return;
  if(i==w.size()){best=cost;return;}
  int rem=0; for(size_t k=i;k<w.size();++k) rem+=w[k];
  for(int x=pos;x+rem<=e;++x) rec(b,e,w,t,i+1,x+w[i],cost+(long long)w[i]*std::abs(x-t[i]));
}
int main(){
  int bad=0, tot=0;
  for(int L=1;L<=7;++L) for(int n=1;n<=3;++n){
    // enumerate widths 1..3 and targets -3..L+3
    std::vector<int> w(n),t(n);
    int W=3,T=L+7; long long combos=1; for(int i=0;i<n;++i) combos*=W*T;
    for(long long c=0;c<combos;++c){
      long long r=c; int sum=0;
      for(int i=0;i<n;++i){ w[i]=1+r%W; r/=W; t[i]=-3+r%T; r/=T; sum+=w[i]; }
      if(sum>L) continue;
      RowLegalizer leg(0,L);
      long long total=0; bool mism=false;
      for(int i=0;i<n;++i){ long long p=leg.getCost(w[i],t[i]); long long q=leg.push(w[i],t[i]); if(p!=q) mism=true; total+=q; }
      auto pl=leg.getPlacement();
      long long real=0; for(int i=0;i<n;++i) real+=(long long)w[i]*std::abs(pl[i]-t[i]);
      best=LLONG_MAX; rec(0,L,w,t,0,0,0);
      ++tot;
      if(real!=best) { static int k=0; if(k++<3) printf("NONOPT L=%d n=%d real=%lld opt=%lld\n",L,n,real,best);} if(mism){ static int k=0; if(k++<3) printf("MISM\n");} if(mism||total!=real||real!=best){ if(bad<5){ printf("L=%d n=%d:",L,n); for(int i=0;i<n;++i) printf(" (w%d,t%d)->%d",w[i],t[i],pl[i]); printf(" sumcost=%lld real=%lld opt=%lld mism=%d\n",total,real,best,mism);} ++bad; }
    }
  }
  printf("tot=%d bad=%d\n",tot,bad);
}
