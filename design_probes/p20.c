#include <stdbool.h>
#include <math.h>
int nondet_int(void); double nondet_double(void); float nondet_float(void);
void harness_density(void) {
  int w = nondet_int(); double expansionFactor = nondet_double(), maxCellWidth = nondet_double();
  __CPROVER_assume(1 <= w && w <= (1<<22));
  __CPROVER_assume(expansionFactor > 1.0 && expansionFactor <= 1.0e9);        /* targetDensity/density with density < target */
  __CPROVER_assume(maxCellWidth >= (double)w && maxCellWidth <= 1.0e9);      /* cap not below the current width */
  /* verbatim from Circuit::expandCellsToDensity */
      double fracW = w * expansionFactor;
      // Force the expansion to a maximum
      if (fracW > (double)maxCellWidth) {
        fracW = (double)maxCellWidth;
      }

      int newW = (int)fracW;
  __CPROVER_assert(newW >= w, "expandCellsToDensity never narrows a cell when the cap is not below its width");
}
void harness_factor(void) {
  int w = nondet_int(); float e = nondet_float();
  __CPROVER_assume(0 <= w && w <= (1<<22));
  __CPROVER_assume(e >= 1.0f && e <= 256.0f);
  int cw = w;
  /* verbatim from Circuit::expandCellsByFactor */
      cw *= e;
  __CPROVER_assert(cw >= w, "expandCellsByFactor never narrows a cell");
}
