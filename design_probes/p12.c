#include <stdbool.h>
/* key expression verbatim from LegalizerBase::computeCellOrder */
static float key(float weightX, float weightWidth, float weightY, float weightHeight, int tx, int w, int ty, int h) {
  float val = weightX * tx + weightWidth * w +
                weightY * ty + weightHeight * h;
  return val;
}
int nondet_int(void); float nondet_float(void);
void harness(void) {
  int xa = nondet_int(), wa = nondet_int(), xb = nondet_int(), wb = nondet_int(), y = nondet_int(), h = nondet_int();
  float ww = nondet_float(), wy = nondet_float(), wh = nondet_float();
  __CPROVER_assume(-(1<<20) < xa && xa < (1<<20) && -(1<<20) < xb && xb < (1<<20) && -(1<<20) < y && y < (1<<20));
  __CPROVER_assume(1 <= wa && wa < (1<<20) && 1 <= wb && wb < (1<<20) && 1 <= h && h < (1<<20));
  __CPROVER_assume(xa + wa <= xb);            /* A left of B, no overlap, same row (same y, same height) */
#ifdef FULLRANGE
  __CPROVER_assume(ww >= -1.0f && ww <= 2.0f); /* what LegalizationParameters::check accepts */
#else
  __CPROVER_assume(ww >= 0.0f && ww <= 1.0f);
#endif
  __CPROVER_assume(wy >= -0.2f && wy <= 0.2f && wh >= -4.0f && wh <= 4.0f);
  float ka = key(1.0f, ww, wy, wh, xa, wa, y, h), kb = key(1.0f, ww, wy, wh, xb, wb, y, h);
  __CPROVER_assert(ka <= kb, "sort key is monotone for non-overlapping cells of a row");
#ifdef STRICT
  __CPROVER_assert(ka < kb, "sort key is strictly monotone (no reliance on index tie-break)");
#endif
}
