#include <stdbool.h>
#include <math.h>
typedef enum { LegalizationModel_L1, LegalizationModel_L2 } LegalizationModel;
typedef enum { NetModelOption_BoundToBound } NetModelOption;
int verif_exc;
#define assert(e) __CPROVER_assert(e, "repo assert: " #e)
#define VERIF_THROW do { verif_exc = 1; return; } while (0)
/* A(libm): exp/log enclosure */ double nondet_double(void);
static double verif_log(double x) { double r = nondet_double(); __CPROVER_assume(x > 0 && (x >= 1.0 ? r >= 0.0 : r < 0.0) && r <= x && r >= -1.0e3); return r; }
static double verif_exp(double x) { double r = nondet_double(); __CPROVER_assume(r > 0.0 && (x >= 0.0 ? r >= 1.0 : r < 1.0) && r <= 1.0e9); return r; }
typedef struct { double cutoffDistance; double cutoffDistanceUpdateFactor; double areaExponent; double initialValue; double updateFactor; double targetBlending; } PenaltyParameters;
typedef struct { NetModelOption netModel; double approximationDistance; double approximationDistanceUpdateFactor; int maxNbConjugateGradientSteps; double conjugateGradientErrorTolerance; } ContinuousModelParameters;
typedef struct { LegalizationModel costModel; int nbSteps; double binSize; int lineReoptSize; int lineReoptOverlap; int diagReoptSize; int diagReoptOverlap; int squareReoptSize; int squareReoptOverlap; bool unidimensionalTransport; double quadraticPenalty; double sideMargin; double coarseningLimit; double targetBlending; } RoughLegalizationParameters;
typedef struct { int maxNbSteps; int nbInitialSteps; int nbStepsBeforeRoughLegalization; double gapTolerance; double distanceTolerance; double penaltyUpdateDistance; double penaltyUpdateBackoff; double exportBlending; ContinuousModelParameters continuousModel; RoughLegalizationParameters roughLegalization; PenaltyParameters penalty; double noise; } GlobalPlacerParameters;
typedef struct { LegalizationModel costModel; double orderingWidth; double orderingHeight; double orderingY; } LegalizationParameters;
typedef struct { int nbPasses; int localSearchNbNeighbours; int localSearchNbRows; int shiftNbRows; int shiftMaxNbCells; int reorderingNbRows; int reorderingMaxNbCells; } DetailedPlacerParameters;
typedef struct { GlobalPlacerParameters global; LegalizationParameters legalization; DetailedPlacerParameters detailed; int seed; } ColoquinteParameters;
static double interpolateEffort(double minVal, double maxVal, int effort, int minEffort, int maxEffort)
{
  assert(minEffort < maxEffort);
  assert(effort >= minEffort && effort <= maxEffort);
  double fact = (effort - minEffort) / (float)(maxEffort - minEffort);
  return maxVal * fact + minVal * (1.0 - fact);
}
static double interpolateLogEffort_(double minVal, double maxVal, int effort, int minEffort, int maxEffort)
{
  return verif_exp(interpolateEffort(verif_log(minVal), verif_log(maxVal), effort,
                                    minEffort, maxEffort));
}
#define interpolateLogEffort(a,b,e) interpolateLogEffort_(a,b,e,1,9)
#define cutoffDistance (this->cutoffDistance)
#define cutoffDistanceUpdateFactor (this->cutoffDistanceUpdateFactor)
#define areaExponent (this->areaExponent)
#define initialValue (this->initialValue)
#define updateFactor (this->updateFactor)
#define targetBlending (this->targetBlending)
void PenaltyParameters_check(const PenaltyParameters *this)
{
  if (cutoffDistance < 1.0e-6) {
    VERIF_THROW;
  }
  if (cutoffDistanceUpdateFactor < 0.8 || cutoffDistanceUpdateFactor > 1.2) {
    VERIF_THROW;
  }
  if (areaExponent < 0.49 || areaExponent > 1.01) {
    VERIF_THROW;
  }
  if (initialValue <= 0.0f) {
    VERIF_THROW;
  }
  if (updateFactor <= 1.0f || updateFactor >= 2.0f) {
    VERIF_THROW;
  }
  if (targetBlending < 0.1f || targetBlending > 1.1f) {
    VERIF_THROW;
  }
}
#undef cutoffDistance
#undef cutoffDistanceUpdateFactor
#undef areaExponent
#undef initialValue
#undef updateFactor
#undef targetBlending

#define netModel (this->netModel)
#define approximationDistance (this->approximationDistance)
#define approximationDistanceUpdateFactor (this->approximationDistanceUpdateFactor)
#define maxNbConjugateGradientSteps (this->maxNbConjugateGradientSteps)
#define conjugateGradientErrorTolerance (this->conjugateGradientErrorTolerance)
void ContinuousModelParameters_check(const ContinuousModelParameters *this)
{
  if (approximationDistance < 1.0e-6) {
    VERIF_THROW;
  }
  if (approximationDistanceUpdateFactor < 0.8 ||
      approximationDistanceUpdateFactor > 1.2) {
    VERIF_THROW;
  }
  if (approximationDistance > 1.0e3) {
    VERIF_THROW;
  }
  if (maxNbConjugateGradientSteps <= 0) {
    VERIF_THROW;
  }
  if (conjugateGradientErrorTolerance < 1.0e-8) {
    VERIF_THROW;
  }
  if (conjugateGradientErrorTolerance > 1.0) {
    VERIF_THROW;
  }
}
#undef netModel
#undef approximationDistance
#undef approximationDistanceUpdateFactor
#undef maxNbConjugateGradientSteps
#undef conjugateGradientErrorTolerance

#define costModel (this->costModel)
#define nbSteps (this->nbSteps)
#define binSize (this->binSize)
#define lineReoptSize (this->lineReoptSize)
#define lineReoptOverlap (this->lineReoptOverlap)
#define diagReoptSize (this->diagReoptSize)
#define diagReoptOverlap (this->diagReoptOverlap)
#define squareReoptSize (this->squareReoptSize)
#define squareReoptOverlap (this->squareReoptOverlap)
#define unidimensionalTransport (this->unidimensionalTransport)
#define quadraticPenalty (this->quadraticPenalty)
#define sideMargin (this->sideMargin)
#define coarseningLimit (this->coarseningLimit)
#define targetBlending (this->targetBlending)
void RoughLegalizationParameters_check(const RoughLegalizationParameters *this)
{
  if (nbSteps < 0) {
    VERIF_THROW;
  }
  if (binSize < 1.0f) {
    VERIF_THROW;
  }
  if (binSize > 25.0f) {
    VERIF_THROW;
  }
  if (lineReoptSize < 1 || diagReoptSize < 1 || squareReoptSize < 1) {
    VERIF_THROW;
  }
  if (lineReoptOverlap < 1 || diagReoptOverlap < 1 || squareReoptOverlap < 1) {
    VERIF_THROW;
  }
  if (lineReoptSize > 64 || diagReoptSize > 64 || squareReoptSize > 8) {
    VERIF_THROW;
  }
  if (lineReoptSize < 2 && diagReoptSize < 2 && squareReoptSize < 2 &&
      (!unidimensionalTransport || costModel != LegalizationModel_L1)) {
    VERIF_THROW;
  }
  if (lineReoptSize > 1 && lineReoptOverlap >= lineReoptSize) {
    VERIF_THROW;
  }
  if (diagReoptSize > 1 && diagReoptOverlap >= diagReoptSize) {
    VERIF_THROW;
  }
  if (squareReoptSize > 1 && squareReoptOverlap >= squareReoptSize) {
    VERIF_THROW;
  }
  if (quadraticPenalty < 0.0 || quadraticPenalty > 1.0) {
    VERIF_THROW;
  }
  if (targetBlending < -0.1 || targetBlending > 0.9f) {
    VERIF_THROW;
  }
}
#undef costModel
#undef nbSteps
#undef binSize
#undef lineReoptSize
#undef lineReoptOverlap
#undef diagReoptSize
#undef diagReoptOverlap
#undef squareReoptSize
#undef squareReoptOverlap
#undef unidimensionalTransport
#undef quadraticPenalty
#undef sideMargin
#undef coarseningLimit
#undef targetBlending

#define costModel (this->costModel)
#define orderingWidth (this->orderingWidth)
#define orderingHeight (this->orderingHeight)
#define orderingY (this->orderingY)
void LegalizationParameters_check(const LegalizationParameters *this)
{
  if (costModel != LegalizationModel_L1) {
    VERIF_THROW;
  }
  if (orderingWidth > 2.0 || orderingWidth < -1.0) {
    VERIF_THROW;
  }
  if (orderingY > 0.2 || orderingY < -0.2) {
    VERIF_THROW;
  }
}
#undef costModel
#undef orderingWidth
#undef orderingHeight
#undef orderingY

#define nbPasses (this->nbPasses)
#define localSearchNbNeighbours (this->localSearchNbNeighbours)
#define localSearchNbRows (this->localSearchNbRows)
#define shiftNbRows (this->shiftNbRows)
#define shiftMaxNbCells (this->shiftMaxNbCells)
#define reorderingNbRows (this->reorderingNbRows)
#define reorderingMaxNbCells (this->reorderingMaxNbCells)
void DetailedPlacerParameters_check(const DetailedPlacerParameters *this)
{
  if (nbPasses < 0) {
    VERIF_THROW;
  }
  if (localSearchNbNeighbours < 0) {
    VERIF_THROW;
  }
  if (localSearchNbRows < 0) {
    VERIF_THROW;
  }
  if (shiftNbRows <= 0) {
    VERIF_THROW;
  }
  if (shiftMaxNbCells < 0) {
    VERIF_THROW;
  }
  if (reorderingNbRows <= 0) {
    VERIF_THROW;
  }
  if (reorderingMaxNbCells < 0) {
    VERIF_THROW;
  }
}
#undef nbPasses
#undef localSearchNbNeighbours
#undef localSearchNbRows
#undef shiftNbRows
#undef shiftMaxNbCells
#undef reorderingNbRows
#undef reorderingMaxNbCells

#define maxNbSteps (this->maxNbSteps)
#define nbInitialSteps (this->nbInitialSteps)
#define nbStepsBeforeRoughLegalization (this->nbStepsBeforeRoughLegalization)
#define gapTolerance (this->gapTolerance)
#define distanceTolerance (this->distanceTolerance)
#define penaltyUpdateDistance (this->penaltyUpdateDistance)
#define penaltyUpdateBackoff (this->penaltyUpdateBackoff)
#define exportBlending (this->exportBlending)
#define continuousModel (this->continuousModel)
#define roughLegalization (this->roughLegalization)
#define penalty (this->penalty)
#define noise (this->noise)
void GlobalPlacerParameters_check(const GlobalPlacerParameters *this)
{
  RoughLegalizationParameters_check(&roughLegalization); if (verif_exc) return;
  ContinuousModelParameters_check(&continuousModel); if (verif_exc) return;
  PenaltyParameters_check(&penalty); if (verif_exc) return;
  if (maxNbSteps < 0) {
    VERIF_THROW;
  }
  if (nbInitialSteps < 0) {
    VERIF_THROW;
  }
  if (nbInitialSteps >= maxNbSteps) {
    VERIF_THROW;
  }
  if (nbStepsBeforeRoughLegalization < 1) {
    VERIF_THROW;
  }
  if (gapTolerance < 0.0f || gapTolerance > 1.0f) {
    VERIF_THROW;
  }
  if (distanceTolerance < 0.0f) {
    VERIF_THROW;
  }
  if (exportBlending < -0.5f || exportBlending > 1.5f) {
    VERIF_THROW;
  }
  if (noise < 0.0 || noise > 2.0) {
    VERIF_THROW;
  }
  if (penaltyUpdateDistance <= 0.0f) {
    VERIF_THROW;
  }
  if (penaltyUpdateBackoff < 1.0f) {
    VERIF_THROW;
  }
}
#undef maxNbSteps
#undef nbInitialSteps
#undef nbStepsBeforeRoughLegalization
#undef gapTolerance
#undef distanceTolerance
#undef penaltyUpdateDistance
#undef penaltyUpdateBackoff
#undef exportBlending
#undef continuousModel
#undef roughLegalization
#undef penalty
#undef noise

#define cutoffDistance (this->cutoffDistance)
#define cutoffDistanceUpdateFactor (this->cutoffDistanceUpdateFactor)
#define areaExponent (this->areaExponent)
#define initialValue (this->initialValue)
#define updateFactor (this->updateFactor)
#define targetBlending (this->targetBlending)
void PenaltyParameters_ctor(PenaltyParameters *this, int effort)
{

  // TODO: make cutoff distance smaller at small effort
  cutoffDistance = 40.0;
  cutoffDistanceUpdateFactor = 1.0;
  areaExponent = 0.5;
  // TODO: make initial penalty bigger at small effort
  initialValue = 0.03;
  // TODO: find best parameter
  targetBlending = 1.0;
  double updateFactorArray[9] = {1.23, 1.23, 1.23, 1.22, 1.22,
                                 1.22, 1.22, 1.17, 1.07};
  updateFactor = updateFactorArray[effort - 1];
}
#undef cutoffDistance
#undef cutoffDistanceUpdateFactor
#undef areaExponent
#undef initialValue
#undef updateFactor
#undef targetBlending

#define netModel (this->netModel)
#define approximationDistance (this->approximationDistance)
#define approximationDistanceUpdateFactor (this->approximationDistanceUpdateFactor)
#define maxNbConjugateGradientSteps (this->maxNbConjugateGradientSteps)
#define conjugateGradientErrorTolerance (this->conjugateGradientErrorTolerance)
void ContinuousModelParameters_ctor(ContinuousModelParameters *this, int effort)
{

  netModel = NetModelOption_BoundToBound;
  approximationDistance = 2.0;
  approximationDistanceUpdateFactor = 1.0;
  maxNbConjugateGradientSteps = 1000;
  conjugateGradientErrorTolerance = 1.0e-6;
}
#undef netModel
#undef approximationDistance
#undef approximationDistanceUpdateFactor
#undef maxNbConjugateGradientSteps
#undef conjugateGradientErrorTolerance

#define costModel (this->costModel)
#define nbSteps (this->nbSteps)
#define binSize (this->binSize)
#define lineReoptSize (this->lineReoptSize)
#define lineReoptOverlap (this->lineReoptOverlap)
#define diagReoptSize (this->diagReoptSize)
#define diagReoptOverlap (this->diagReoptOverlap)
#define squareReoptSize (this->squareReoptSize)
#define squareReoptOverlap (this->squareReoptOverlap)
#define unidimensionalTransport (this->unidimensionalTransport)
#define quadraticPenalty (this->quadraticPenalty)
#define sideMargin (this->sideMargin)
#define coarseningLimit (this->coarseningLimit)
#define targetBlending (this->targetBlending)
void RoughLegalizationParameters_ctor(RoughLegalizationParameters *this, int effort)
{

  costModel = LegalizationModel_L1;
  nbSteps = 1;
  // TODO: find best parameter
  binSize = 5.0;
  lineReoptSize = 2;
  lineReoptOverlap = 1;
  diagReoptSize = 2;
  diagReoptOverlap = 1;
  unidimensionalTransport = true;
  // TODO: find best parameter
  sideMargin = 0.9;
  coarseningLimit = 100.0;
  quadraticPenalty = 0.001;
  // TODO: find best parameter
  targetBlending = 0.0;
  int squareSizeArray[9] = {1, 2, 3, 3, 3, 4, 4, 4, 5};
  squareReoptSize = squareSizeArray[effort - 1];
  squareReoptOverlap = 1;
}
#undef costModel
#undef nbSteps
#undef binSize
#undef lineReoptSize
#undef lineReoptOverlap
#undef diagReoptSize
#undef diagReoptOverlap
#undef squareReoptSize
#undef squareReoptOverlap
#undef unidimensionalTransport
#undef quadraticPenalty
#undef sideMargin
#undef coarseningLimit
#undef targetBlending

#define maxNbSteps (this->maxNbSteps)
#define nbInitialSteps (this->nbInitialSteps)
#define nbStepsBeforeRoughLegalization (this->nbStepsBeforeRoughLegalization)
#define gapTolerance (this->gapTolerance)
#define distanceTolerance (this->distanceTolerance)
#define penaltyUpdateDistance (this->penaltyUpdateDistance)
#define penaltyUpdateBackoff (this->penaltyUpdateBackoff)
#define exportBlending (this->exportBlending)
#define continuousModel (this->continuousModel)
#define roughLegalization (this->roughLegalization)
#define penalty (this->penalty)
#define noise (this->noise)
void GlobalPlacerParameters_ctor(GlobalPlacerParameters *this, int effort)
{
  ContinuousModelParameters_ctor(&continuousModel, effort); if (verif_exc) return;
  RoughLegalizationParameters_ctor(&roughLegalization, effort); if (verif_exc) return;
  PenaltyParameters_ctor(&penalty, effort); if (verif_exc) return;

  maxNbSteps = 400;
  nbInitialSteps = 0;
  nbStepsBeforeRoughLegalization = 1;
  distanceTolerance = 2.0;
  penaltyUpdateDistance = 10.0;
  penaltyUpdateBackoff = 2.0;
  // TODO: find best parameter
  exportBlending = 0.99;
  noise = 1.0e-4;
  // Parameters that vary with effort here
  double gapToleranceArray[9] = {0.13,  0.13,  0.058, 0.038, 0.026,
                                 0.026, 0.026, 0.026, 0.026};
  gapTolerance = gapToleranceArray[effort - 1];
  GlobalPlacerParameters_check(this); if (verif_exc) return;
}
#undef maxNbSteps
#undef nbInitialSteps
#undef nbStepsBeforeRoughLegalization
#undef gapTolerance
#undef distanceTolerance
#undef penaltyUpdateDistance
#undef penaltyUpdateBackoff
#undef exportBlending
#undef continuousModel
#undef roughLegalization
#undef penalty
#undef noise

#define costModel (this->costModel)
#define orderingWidth (this->orderingWidth)
#define orderingHeight (this->orderingHeight)
#define orderingY (this->orderingY)
void LegalizationParameters_ctor(LegalizationParameters *this, int effort)
{

  costModel = LegalizationModel_L1;
  orderingHeight = -1.0;
  // TODO: find best parameter
  orderingWidth = 0.2;
  orderingY = 0.0;
  LegalizationParameters_check(this); if (verif_exc) return;
}
#undef costModel
#undef orderingWidth
#undef orderingHeight
#undef orderingY

#define nbPasses (this->nbPasses)
#define localSearchNbNeighbours (this->localSearchNbNeighbours)
#define localSearchNbRows (this->localSearchNbRows)
#define shiftNbRows (this->shiftNbRows)
#define shiftMaxNbCells (this->shiftMaxNbCells)
#define reorderingNbRows (this->reorderingNbRows)
#define reorderingMaxNbCells (this->reorderingMaxNbCells)
void DetailedPlacerParameters_ctor(DetailedPlacerParameters *this, int effort)
{

  nbPasses = round(interpolateLogEffort(2.0, 8.0, effort));
  localSearchNbNeighbours = round(interpolateLogEffort(2.0, 16.0, effort));
  localSearchNbRows = round(interpolateEffort(1.0, 4.0, effort, 1, 9));
  shiftNbRows = 3;
  shiftMaxNbCells = round(interpolateLogEffort(50, 120.0, effort));
  reorderingNbRows = 1;
  reorderingMaxNbCells = 1;
  DetailedPlacerParameters_check(this); if (verif_exc) return;
}
#undef nbPasses
#undef localSearchNbNeighbours
#undef localSearchNbRows
#undef shiftNbRows
#undef shiftMaxNbCells
#undef reorderingNbRows
#undef reorderingMaxNbCells

#define global (this->global)
#define legalization (this->legalization)
#define detailed (this->detailed)
void ColoquinteParameters_ctor(ColoquinteParameters *this, int effort, int seed_arg)
{
  GlobalPlacerParameters_ctor(&global, effort); if (verif_exc) return;
  LegalizationParameters_ctor(&legalization, effort); if (verif_exc) return;
  DetailedPlacerParameters_ctor(&detailed, effort); if (verif_exc) return;
  this->seed = seed_arg;

  if (effort < 1 || effort > 9) {
    VERIF_THROW;
  }
}

int nondet_int(void);
void harness(void) { ColoquinteParameters P; int effort = nondet_int(); verif_exc = 0;
  ColoquinteParameters_ctor(&P, effort, 0);
  __CPROVER_assert(verif_exc || (1 <= effort && effort <= 9), "an effort outside 1..9 is refused");
  __CPROVER_assert(!(1 <= effort && effort <= 9) || !verif_exc, "every effort 1..9 is accepted");
}