#include <stdbool.h>
#include <stdlib.h>
#define assert(e) __CPROVER_assert(e, "repo assert: " #e)
typedef struct { int *a; int n; int cap; } VecInt;
static void VecInt_push_back(VecInt *v, int x) { __CPROVER_assert(v->n < v->cap, "vector model capacity"); v->a[v->n++] = x; }
int ghost_g;
#define NMAX 4096
/* computeSubdivisions: return by out-param (std::vector return lowered) */
void computeSubdivisions(int min, int max, int number, VecInt *ret_p)
__CPROVER_requires(__CPROVER_is_fresh(ret_p, sizeof(*ret_p)) && ret_p->n == 0 && ret_p->cap == NMAX + 1 && __CPROVER_is_fresh(ret_p->a, sizeof(int) * (NMAX + 1)))
__CPROVER_requires(number >= 1 && number <= NMAX && max >= min && min >= -(1<<22) && max <= (1<<22))
__CPROVER_requires(0 <= ghost_g && ghost_g < number)
__CPROVER_assigns(ret_p->n, __CPROVER_object_whole(ret_p->a))
__CPROVER_ensures(ret_p->n == number + 1 && ret_p->a[0] == min )
{
#define ret (*ret_p)
  assert(number >= 1);
  assert(max >= min);
  for (int i = 0; i < number + 1; ++i)
  __CPROVER_assigns(i, ret_p->n, __CPROVER_object_whole(ret_p->a))
  __CPROVER_loop_invariant(0 <= i && i <= number + 1 && ret.n == i && ret.cap == NMAX + 1)
  __CPROVER_loop_invariant(i > 0 ==> ret.a[0] == min)
  __CPROVER_loop_invariant(1)
  __CPROVER_decreases(number + 1 - i)
  {
    VecInt_push_back(&ret, min + (i * (max - min) / number));
  }
  assert((int)ret.n == number + 1);
  assert(ret.a[0] == min);
}
void harness(void) { int a, b, n; VecInt *r; computeSubdivisions(a, b, n, r); }
