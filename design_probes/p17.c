#include <stdbool.h>
#include <limits.h>
typedef struct { bool first; long long second; } PairBL;
/* ghost: G[k] = objective value the placement would have after swapping c with k, from the loop's (unchanging) state; F[k] = canSwap */
#define NMAX 4096
typedef struct { long long value; int c; long long *G; bool *F; int n; } DetailedPlacer; /* abstract view used only by this unit */
#define value() (this->value)
PairBL DetailedPlacer_valueOnSwap(DetailedPlacer *this, int c1, int c2)
__CPROVER_requires(0 <= c2 && c2 < this->n && c1 == this->c)
__CPROVER_assigns()
__CPROVER_ensures(__CPROVER_return_value.first == this->F[c2])
__CPROVER_ensures(__CPROVER_return_value.first ==> __CPROVER_return_value.second == this->G[c2])
;
void DetailedPlacer_doSwap(DetailedPlacer *this, int c1, int c2)
__CPROVER_requires(0 <= c2 && c2 < this->n && c1 == this->c && this->F[c2])
__CPROVER_assigns(this->value)
__CPROVER_ensures(this->value == this->G[c2])
;
#define valueOnSwap(a,b) DetailedPlacer_valueOnSwap(this, a, b)
#define doSwap(a,b) DetailedPlacer_doSwap(this, a, b)
bool DetailedPlacer_bestSwap(DetailedPlacer *this, int c, const int *candidates, int candidates_size)
__CPROVER_requires(__CPROVER_is_fresh(this, sizeof(*this)) && 1 <= this->n && this->n <= NMAX && __CPROVER_is_fresh(this->G, sizeof(long long) * this->n) && __CPROVER_is_fresh(this->F, sizeof(bool) * this->n))
__CPROVER_requires(0 <= candidates_size && candidates_size <= NMAX && __CPROVER_is_fresh(candidates, sizeof(int) * candidates_size) && c == this->c)
__CPROVER_assigns(this->value)
__CPROVER_ensures(this->value <= __CPROVER_old(this->value))
__CPROVER_ensures(__CPROVER_return_value ==> this->value < __CPROVER_old(this->value))
__CPROVER_ensures(!__CPROVER_return_value ==> this->value == __CPROVER_old(this->value))
/* body verbatim place_detailed.cpp:234, rules 5 (range-for) and 6 (structured binding) applied */
{
  long long bestValue = value();
  bool found = false;
  int bestCandidate = -1;
  for (int _i = 0; _i < candidates_size; ++_i)
  __CPROVER_assigns(_i, found, bestCandidate)
  __CPROVER_loop_invariant(0 <= _i && _i <= candidates_size && bestValue == this->value)
  __CPROVER_loop_invariant(found ==> (0 <= bestCandidate && bestCandidate < this->n && this->F[bestCandidate] && this->G[bestCandidate] < bestValue))
  __CPROVER_decreases(candidates_size - _i)
  { int candidate = candidates[_i];
    __CPROVER_assume(0 <= candidate && candidate < this->n); /* INSTANTIATE(candidates_in_range, _i) */
    PairBL _p = valueOnSwap(c, candidate); bool feasible = _p.first; long long val = _p.second;
    if (feasible && val < bestValue) {
      found = true;
      bestCandidate = candidate;
    }
  }
  if (found) {
    doSwap(c, bestCandidate);
  }
  return found;
}
void harness(void) { DetailedPlacer *t; int c; int *cand; int n; DetailedPlacer_bestSwap(t, c, cand, n); }
