#include <stdbool.h>
#include <limits.h>
#define assert(e) __CPROVER_assert(e, "repo assert: " #e)
#define std_min(a,b) ((a)<(b)?(a):(b))
#define std_max(a,b) ((a)>(b)?(a):(b))
typedef struct { int first, second; } PairII;
#define std_make_pair(a,b) ((PairII){(a),(b)})
typedef struct { int *cellPos_; int cellPos__size; int *netLimits_; int netLimits__size; int *netCells_; int *netPinOffsets_; int npins; } IncrNetModel;
#define cellPos_ (this->cellPos_)
#define netLimits_ (this->netLimits_)
#define netCells_ (this->netCells_)
#define netPinOffsets_ (this->netPinOffsets_)
#define nbCells() (this->cellPos__size)
#define nbNets() (this->netLimits__size - 1)
static inline int nbNetPins(const IncrNetModel *this, int net) { assert(net >= 0); assert(net < nbNets()); return netLimits_[net + 1] - netLimits_[net]; }
#define nbNetPins(net) nbNetPins(this, net)
static inline int pinCell(const IncrNetModel *this, int net, int pin) { assert(pin >= 0); assert(pin < nbNetPins(net)); return netCells_[netLimits_[net] + pin]; }
#define pinCell(net, pin) pinCell(this, net, pin)
static inline int netPinOffset(const IncrNetModel *this, int net, int pin) { assert(pin >= 0); assert(pin < nbNetPins(net)); return netPinOffsets_[netLimits_[net] + pin]; }
#define netPinOffset(net, pin) netPinOffset(this, net, pin)
#define NMAX 4096
#define PMAX 4096
#define LIM (1<<24)
static bool PINS_OK(const IncrNetModel *this, int k) { return 0 <= netCells_[k] && netCells_[k] < nbCells() && -LIM <= netPinOffsets_[k] && netPinOffsets_[k] <= LIM && -LIM <= cellPos_[netCells_[k]] && cellPos_[netCells_[k]] <= LIM; }
#define INSTANTIATE(inv, k) __CPROVER_assume(inv(this, k))
int ghost_pin;     /* arbitrary pin of the net */
int wit_min, wit_max; /* ghost witnesses written by ghost statements */
static bool model_ok(const IncrNetModel *this) {
  return __CPROVER_is_fresh(this, sizeof(*this)) && 1 <= nbCells() && nbCells() <= NMAX && 2 <= this->netLimits__size && this->netLimits__size <= NMAX
   && __CPROVER_is_fresh(cellPos_, sizeof(int) * nbCells()) && __CPROVER_is_fresh(netLimits_, sizeof(int) * this->netLimits__size)
   && 1 <= this->npins && this->npins <= PMAX && __CPROVER_is_fresh(netCells_, sizeof(int) * this->npins) && __CPROVER_is_fresh(netPinOffsets_, sizeof(int) * this->npins);
}
PairII IncrNetModel_computeNetMinMaxPos(const IncrNetModel *this, int net)
__CPROVER_requires(model_ok(this) && 0 <= net && net < nbNets())
__CPROVER_requires(0 <= netLimits_[net] && netLimits_[net] <= netLimits_[net + 1] && netLimits_[net + 1] <= this->npins)
/* class invariant instantiated: pin cells in range, magnitudes */
__CPROVER_requires(netLimits_[net + 1] - netLimits_[net] >= 1)
__CPROVER_requires(0 <= ghost_pin && ghost_pin < netLimits_[net + 1] - netLimits_[net] && PINS_OK(this, netLimits_[net] + ghost_pin))
__CPROVER_assigns(wit_min, wit_max)
__CPROVER_ensures(__CPROVER_return_value.first <= cellPos_[netCells_[netLimits_[net] + ghost_pin]] + netPinOffsets_[netLimits_[net] + ghost_pin])
__CPROVER_ensures(__CPROVER_return_value.second >= cellPos_[netCells_[netLimits_[net] + ghost_pin]] + netPinOffsets_[netLimits_[net] + ghost_pin])
__CPROVER_ensures(0 <= wit_min && wit_min < netLimits_[net + 1] - netLimits_[net])
__CPROVER_ensures(0 <= wit_max && wit_max < netLimits_[net + 1] - netLimits_[net])
{
  int minPos = INT_MAX;
  int maxPos = INT_MIN;
  wit_min = -1; wit_max = -1;
  const int ghost_pos = cellPos_[netCells_[netLimits_[net] + ghost_pin]] + netPinOffsets_[netLimits_[net] + ghost_pin]; /* ghost snapshot */
  int ghost_minpos = 0, ghost_maxpos = 0; /* ghost: positions of the witnesses */
  const int nb = netLimits_[net + 1] - netLimits_[net];
  for (int j = 0; j < nbNetPins(net); ++j)
  __CPROVER_assigns(j, minPos, maxPos, wit_min, wit_max, ghost_minpos, ghost_maxpos)
  __CPROVER_loop_invariant(0 <= j && j <= nb)
  __CPROVER_loop_invariant(ghost_pin < j ==> (minPos <= ghost_pos && maxPos >= ghost_pos))
  __CPROVER_loop_invariant(j == 0 ? (wit_min == -1 && wit_max == -1 && minPos == INT_MAX && maxPos == INT_MIN) : (0 <= wit_min && wit_min < j && 0 <= wit_max && wit_max < j && minPos <= maxPos && -2*LIM <= minPos && maxPos <= 2*LIM))
  __CPROVER_decreases(nb - j)
  {
    INSTANTIATE(PINS_OK, netLimits_[net] + j);
    int c = pinCell(net, j);
    int pinPos = cellPos_[c] + netPinOffset(net, j);
    if (pinPos < minPos || wit_min == -1) wit_min = j;   /* ghost */
    if (pinPos > maxPos || wit_max == -1) wit_max = j;   /* ghost */
    minPos = std_min(pinPos, minPos);
    maxPos = std_max(pinPos, maxPos);
  }
  return std_make_pair(minPos, maxPos);
}
void harness(void) { IncrNetModel *m; int net; IncrNetModel_computeNetMinMaxPos(m, net); }
