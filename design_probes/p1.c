#include <stdbool.h>
#include <stdlib.h>
#include <math.h>
/* prelude (trusted): enum lowering, throw lowering */
typedef enum { CellOrientation_N = 0, CellOrientation_S = 1, CellOrientation_W = 2, CellOrientation_E = 3, CellOrientation_FN = 4, CellOrientation_FS = 5, CellOrientation_FW = 6, CellOrientation_FE = 7, CellOrientation_INVALID = 8, CellOrientation_UNKNOWN = 9 } CellOrientation;
typedef enum { CellRowPolarity_ANY, CellRowPolarity_SAME, CellRowPolarity_OPPOSITE, CellRowPolarity_NW, CellRowPolarity_SE } CellRowPolarity;
typedef enum { LegalizationModel_L1 } LegalizationModel;
int verif_thrown;
#define VERIF_THROW(msg) do { verif_thrown = 1; return; } while (0)

/* spec (written from the property statement) */
#define IS_ROW_ORIENT(o) ((o) >= 0 && (o) <= 7)
static CellOrientation spec_opposite(CellOrientation o) {
  /* mirror about the x axis: N<->FS, S<->FN, W<->FE?, ... */
  switch (o) { case CellOrientation_N: return CellOrientation_FS; case CellOrientation_FS: return CellOrientation_N;
    case CellOrientation_S: return CellOrientation_FN; case CellOrientation_FN: return CellOrientation_S;
    case CellOrientation_E: return CellOrientation_FW; case CellOrientation_FW: return CellOrientation_E;
    case CellOrientation_W: return CellOrientation_FE; case CellOrientation_FE: return CellOrientation_W;
    default: return CellOrientation_INVALID; }
}

CellOrientation oppositeRowOrientation(CellOrientation o)
__CPROVER_ensures(__CPROVER_return_value == spec_opposite(o))
__CPROVER_assigns()
/* ---- body verbatim from parameters.cpp:53, `CellOrientation::` -> `CellOrientation_` ---- */
{
  switch (o) {
    case CellOrientation_N:
      return CellOrientation_FS;
    case CellOrientation_S:
      return CellOrientation_FN;
    case CellOrientation_E:
      return CellOrientation_FW;
    case CellOrientation_W:
      return CellOrientation_FE;
    case CellOrientation_FN:
      return CellOrientation_S;
    case CellOrientation_FS:
      return CellOrientation_N;
    case CellOrientation_FE:
      return CellOrientation_W;
    case CellOrientation_FW:
      return CellOrientation_E;
    default:
      return CellOrientation_INVALID;
  }
}

CellOrientation cellOrientationInRow(CellRowPolarity cellPolarity,
                                     CellOrientation rowOrientation)
__CPROVER_requires(cellPolarity >= 0 && cellPolarity <= 4)
__CPROVER_ensures(cellPolarity == CellRowPolarity_ANY ==> __CPROVER_return_value == CellOrientation_UNKNOWN)
__CPROVER_ensures(cellPolarity == CellRowPolarity_SAME ==> __CPROVER_return_value == rowOrientation)
__CPROVER_ensures(cellPolarity == CellRowPolarity_OPPOSITE ==> __CPROVER_return_value == spec_opposite(rowOrientation))
__CPROVER_ensures(cellPolarity == CellRowPolarity_NW ==> __CPROVER_return_value == ((rowOrientation == CellOrientation_N || rowOrientation == CellOrientation_FN || rowOrientation == CellOrientation_W || rowOrientation == CellOrientation_FW) ? rowOrientation : CellOrientation_INVALID))
__CPROVER_ensures(cellPolarity == CellRowPolarity_SE ==> __CPROVER_return_value == ((rowOrientation == CellOrientation_S || rowOrientation == CellOrientation_FS || rowOrientation == CellOrientation_E || rowOrientation == CellOrientation_FE) ? rowOrientation : CellOrientation_INVALID))
__CPROVER_assigns()
{
  if (cellPolarity == CellRowPolarity_ANY) {
    // Keep the same orientation
    return CellOrientation_UNKNOWN;
  }
  if (cellPolarity == CellRowPolarity_OPPOSITE) {
    return oppositeRowOrientation(rowOrientation);
  } else if (cellPolarity == CellRowPolarity_SAME) {
    return rowOrientation;
  } else if (cellPolarity == CellRowPolarity_NW) {
    if (rowOrientation == CellOrientation_FN ||
        rowOrientation == CellOrientation_N ||
        rowOrientation == CellOrientation_FW ||
        rowOrientation == CellOrientation_W) {
      // TODO: Could have a mirroring too
      return rowOrientation;
    }
    return CellOrientation_INVALID;
  } else if (cellPolarity == CellRowPolarity_SE) {
    if (rowOrientation == CellOrientation_FS ||
        rowOrientation == CellOrientation_S ||
        rowOrientation == CellOrientation_FE ||
        rowOrientation == CellOrientation_E) {
      // TODO: Could have a mirroring too
      return rowOrientation;
    }
    return CellOrientation_INVALID;
  } else {
    // Shouldn't happen
    abort();
  }
}

/* RoughLegalizationParameters ctor: members via macros */
typedef struct { LegalizationModel costModel; int nbSteps; double binSize; int lineReoptSize; int lineReoptOverlap; int diagReoptSize; int diagReoptOverlap; int squareReoptSize; int squareReoptOverlap; bool unidimensionalTransport; double quadraticPenalty; double sideMargin; double coarseningLimit; double targetBlending; } RoughLegalizationParameters;
#define costModel (this->costModel)
#define nbSteps (this->nbSteps)
#define binSize (this->binSize)
#define lineReoptSize (this->lineReoptSize)
#define lineReoptOverlap (this->lineReoptOverlap)
#define diagReoptSize (this->diagReoptSize)
#define diagReoptOverlap (this->diagReoptOverlap)
#define squareReoptSize (this->squareReoptSize)
#define squareReoptOverlap (this->squareReoptOverlap)
#define unidimensionalTransport (this->unidimensionalTransport)
#define quadraticPenalty (this->quadraticPenalty)
#define sideMargin (this->sideMargin)
#define coarseningLimit (this->coarseningLimit)
#define targetBlending (this->targetBlending)
void RoughLegalizationParameters_ctor(RoughLegalizationParameters *this, int effort)
__CPROVER_requires(__CPROVER_is_fresh(this, sizeof(*this)))
__CPROVER_assigns(__CPROVER_object_whole(this))
{
  costModel = LegalizationModel_L1;
  nbSteps = 1;
  // TODO: find best parameter
  binSize = 5.0;
  lineReoptSize = 2;
  lineReoptOverlap = 1;
  diagReoptSize = 2;
  diagReoptOverlap = 1;
  unidimensionalTransport = true;
  // TODO: find best parameter
  sideMargin = 0.9;
  coarseningLimit = 100.0;
  quadraticPenalty = 0.001;
  // TODO: find best parameter
  targetBlending = 0.0;
  int squareSizeArray[9] = {1, 2, 3, 3, 3, 4, 4, 4, 5};
  squareReoptSize = squareSizeArray[effort - 1];
  squareReoptOverlap = 1;
}
#ifdef H_OPP
void harness(void) { CellOrientation o; oppositeRowOrientation(o); }
#endif
#ifdef H_CIR
void harness(void) { CellRowPolarity p; CellOrientation o; cellOrientationInRow(p, o); }
#endif
#ifdef H_RLP
void harness(void) { RoughLegalizationParameters *t; int effort; RoughLegalizationParameters_ctor(t, effort); }
#endif
