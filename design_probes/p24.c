
#include <stdbool.h>
#include <limits.h>
typedef enum { LegalizationModel_L1 } LegalizationModel;
typedef struct { int minX, maxX, minY, maxY; int orientation; } Row;
typedef struct { bool first; long long second; } PairBL;
typedef struct { Row *rows_; int rows__size; int *cellWidth_; int cellWidth__size; int *cellHeight_; int *cellTargetX_; int *cellTargetY_; bool *cellIsPlaced_; } AbacusLegalizer;
#define rows_ (this->rows_)
#define cellWidth_ (this->cellWidth_)
#define cellHeight_ (this->cellHeight_)
#define cellTargetX_ (this->cellTargetX_)
#define cellTargetY_ (this->cellTargetY_)
#define cellIsPlaced_ (this->cellIsPlaced_)
#define nbRows() (this->rows__size)
static int Row_height(Row r) { return r.maxY - r.minY; }
/* callees: contracts only */
PairBL AbacusLegalizer_evaluatePlacement(AbacusLegalizer *this, int cell, int row);
int LegalizerBase_closestRow(const AbacusLegalizer *this, int y);
void AbacusLegalizer_pushCell(AbacusLegalizer *this, int row, int cell, int targetX); /* stands for rowLegalizers_[bestRow].push(..) + rowToCells_[bestRow].push_back(cell) */
long long norm_ll(int x, int y, LegalizationModel m);
#define evaluatePlacement(c, r) AbacusLegalizer_evaluatePlacement(this, c, r)
#define closestRow(y) LegalizerBase_closestRow(this, y)
#define norm(x, y, m) norm_ll(x, y, m)
typedef struct { AbacusLegalizer *this_; int cell; int targetX; int targetY; int bestRow; long long bestDist; } placeCell_frame;
/* ---- the lambda body, verbatim, as a function over the frame ---- */
#define this (f->this_)
#define cell (f->cell)
#define targetY (f->targetY)
#define bestRow (f->bestRow)
#define bestDist (f->bestDist)
static bool placeCell_tryPlace(placeCell_frame *f, int row)
{
    if (Row_height(rows_[row]) != cellHeight_[cell]) {
      // Forbidden to place a row in a different-height cell
      return false;
    }
    long long yDist = cellWidth_[cell] *
                      norm(0, rows_[row].minY - targetY, LegalizationModel_L1);
    if (bestRow != -1 && yDist > bestDist) {
      // Not possible to do better since the rows are sorted
      return true;
    }
    // Find the best position for the cell
    PairBL _p = evaluatePlacement(cell, row); bool ok = _p.first; long long xDist = _p.second;
    // TODO: extend this to non-L1 cases
    long long dist = xDist + yDist;
    if (!ok) {
      // Not possible to place in this row, but cannot stop yet
      return false;
    }
    if (bestRow == -1 || dist < bestDist) {
      bestRow = row;
      bestDist = dist;
    }
    // Cannot stop yet
    return false;
  }
#undef this
#undef cell
#undef targetY
#undef bestRow
#undef bestDist
/* ---- the outer body, verbatim, captured locals mapped onto the frame ---- */
void AbacusLegalizer_placeCell(AbacusLegalizer *this, int cell_arg)
{
  placeCell_frame frame; frame.this_ = this; frame.cell = cell_arg;
#define cell (frame.cell)
#define targetX (frame.targetX)
#define targetY (frame.targetY)
#define bestRow (frame.bestRow)
#define bestDist (frame.bestDist)
#define tryPlace(r) placeCell_tryPlace(&frame, r)

  /**
   * Simple algorithm that tries close row first and stops early if no
   * improvement can be found
   */
  targetX = cellTargetX_[cell];
  targetY = cellTargetY_[cell];
  bestRow = -1;
  bestDist = LLONG_MAX;

  /* lambda tryPlace lowered (rule 7) */

  // Try promising candidates first
  int initialRow = closestRow(targetY);
  for (int row = initialRow; row < nbRows(); ++row) {
    bool canStop = tryPlace(row);
    if (canStop) {
      break;
    }
  }
  for (int row = initialRow - 1; row >= 0; --row) {
    bool canStop = tryPlace(row);
    if (canStop) {
      break;
    }
  }

  if (bestRow == -1) {
    return;
  }
  AbacusLegalizer_pushCell(this, bestRow, cell, targetX);
  cellIsPlaced_[cell] = true;
}
void harness(void){ AbacusLegalizer *t; int c; AbacusLegalizer_placeCell(t, c); }
