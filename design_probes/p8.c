#include <math.h>
#include <stdbool.h>
#define std_round(x) round(x)
static float blend1(float v1, float v2, float blending)
__CPROVER_requires(!isnan(v1) && !isinf(v1) && !isnan(v2) && !isinf(v2) && v1 >= -16777216.0f && v1 <= 16777216.0f && v2 >= -16777216.0f && v2 <= 16777216.0f)
__CPROVER_requires(blending >= -0.5f && blending <= 1.5f)
__CPROVER_ensures(!isnan(__CPROVER_return_value) && !isinf(__CPROVER_return_value))
__CPROVER_ensures(blending >= 0.0f && blending <= 1.0f ==> (__CPROVER_return_value >= fminf(v1, v2) - 4.0f && __CPROVER_return_value <= fmaxf(v1, v2) + 4.0f))
__CPROVER_assigns()
{
  return (1.0f - blending) * v1 + blending * v2;
}
int export1(float xplace, int placedWidth)
__CPROVER_requires(!isnan(xplace) && xplace >= -16777216.0f && xplace <= 16777216.0f && placedWidth >= 0 && placedWidth <= (1<<23))
__CPROVER_ensures((double)__CPROVER_return_value - ((double)xplace - 0.5 * placedWidth) <= 0.5 && (double)__CPROVER_return_value - ((double)xplace - 0.5 * placedWidth) >= -0.5)
__CPROVER_assigns()
{
  int r = std_round(xplace - 0.5 * placedWidth);
  return r;
}
#ifdef H1
void harness(void) { float a, b, c; blend1(a, b, c); }
#else
void harness(void) { float a; int w; export1(a, w); }
#endif
