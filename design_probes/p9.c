#include <stdbool.h>
#include <stdlib.h>
typedef enum { CellOrientation_N = 0 } CellOrientation;
typedef struct { int *a; int n; } VecInt;
typedef struct { bool *a; int n; } VecBool;
typedef struct { CellOrientation *a; int n; } VecOrient;
typedef struct { VecInt cellWidth_, cellHeight_, cellX_, cellY_; VecBool cellIsFixed_; VecOrient cellOrientation_; } Circuit;
typedef struct { VecInt cellWidth_, cellToX_, cellToY_; VecOrient cellToOrientation_; VecBool cellIsPlaced_; } Legalizer;
int verif_thrown;
#define THROW_runtime_error(msg) do { verif_thrown = 1; return; } while (0)
#define NMAX 4096
int ghost_g;
#define nbCells() (this->cellWidth_.n)
#define isPlaced(j) (this->cellIsPlaced_.a[j])
static bool fresh_vi(VecInt *v, int n) { return v->n == n && __CPROVER_is_fresh(v->a, sizeof(int) * n); }
static bool fresh_vb(VecBool *v, int n) { return v->n == n && __CPROVER_is_fresh(v->a, sizeof(bool) * n); }
static bool fresh_vo(VecOrient *v, int n) { return v->n == n && __CPROVER_is_fresh(v->a, sizeof(CellOrientation) * n); }
void Legalizer_exportPlacement(Legalizer *this, Circuit *circuit)
__CPROVER_requires(__CPROVER_is_fresh(this, sizeof(*this)) && __CPROVER_is_fresh(circuit, sizeof(*circuit)))
__CPROVER_requires(0 <= circuit->cellWidth_.n && circuit->cellWidth_.n <= NMAX && 0 <= this->cellWidth_.n && this->cellWidth_.n <= NMAX)
__CPROVER_requires(fresh_vi(&circuit->cellX_, circuit->cellWidth_.n) && fresh_vi(&circuit->cellY_, circuit->cellWidth_.n) && fresh_vo(&circuit->cellOrientation_, circuit->cellWidth_.n) && fresh_vb(&circuit->cellIsFixed_, circuit->cellWidth_.n))
__CPROVER_requires(fresh_vi(&this->cellToX_, this->cellWidth_.n) && fresh_vi(&this->cellToY_, this->cellWidth_.n) && fresh_vo(&this->cellToOrientation_, this->cellWidth_.n) && fresh_vb(&this->cellIsPlaced_, this->cellWidth_.n))
__CPROVER_requires(0 <= ghost_g && ghost_g < circuit->cellWidth_.n)
__CPROVER_assigns(__CPROVER_object_whole(circuit->cellX_.a), __CPROVER_object_whole(circuit->cellY_.a), __CPROVER_object_whole(circuit->cellOrientation_.a), verif_thrown)
__CPROVER_ensures(circuit->cellIsFixed_.a[ghost_g] ==> (circuit->cellX_.a[ghost_g] == __CPROVER_old(circuit->cellX_.a[ghost_g]) && circuit->cellY_.a[ghost_g] == __CPROVER_old(circuit->cellY_.a[ghost_g]) && circuit->cellOrientation_.a[ghost_g] == __CPROVER_old(circuit->cellOrientation_.a[ghost_g])))
{
  /* dropped: three vector copies (cellLegalX() etc. return const refs to the members) -> aliases */
  VecInt cellX = this->cellToX_;
  VecInt cellY = this->cellToY_;
  VecOrient cellOrient = this->cellToOrientation_;
  int j = 0;
  int oldx = circuit->cellX_.a[ghost_g], oldy = circuit->cellY_.a[ghost_g]; CellOrientation oldo = circuit->cellOrientation_.a[ghost_g];
  for (int i = 0; i < circuit->cellWidth_.n; ++i)
  __CPROVER_assigns(i, j, verif_thrown, __CPROVER_object_whole(circuit->cellX_.a), __CPROVER_object_whole(circuit->cellY_.a), __CPROVER_object_whole(circuit->cellOrientation_.a))
  __CPROVER_loop_invariant(0 <= i && i <= circuit->cellWidth_.n && 0 <= j && j <= i)
  __CPROVER_loop_invariant((circuit->cellIsFixed_.a[ghost_g] || ghost_g >= i) ==> (circuit->cellX_.a[ghost_g] == oldx && circuit->cellY_.a[ghost_g] == oldy && circuit->cellOrientation_.a[ghost_g] == oldo))
  __CPROVER_decreases(circuit->cellWidth_.n - i)
  {
    if (circuit->cellIsFixed_.a[i]) {
      continue;
    }
    if (j >= nbCells()) {
      THROW_runtime_error("Circuit does not match legalizer for export");
    }
    if (isPlaced(j)) {
      circuit->cellX_.a[i] = cellX.a[j];
      circuit->cellY_.a[i] = cellY.a[j];
      circuit->cellOrientation_.a[i] = cellOrient.a[j];
    }
    ++j;
  }
}
void harness(void) { Legalizer *l; Circuit *c; Legalizer_exportPlacement(l, c); }
