#include <stdbool.h>
#define std_min(a,b) ((a)<(b)?(a):(b))
#define std_max(a,b) ((a)>(b)?(a):(b))
#define std_abs(a) ((a)<0?-(a):(a))
typedef long long ll;
#define NS 3   /* max sources */
#define NK 3   /* max sinks */
#define K 16   /* exact queue capacity (part of the bound) */
typedef struct { ll first, second; } Event;
static bool Event_lt(Event a, Event b) { return a.first < b.first || (a.first == b.first && a.second < b.second); }
typedef struct { Event e[K]; int n; } PQ;  /* exact model of std::priority_queue<pair<ll,ll>>: sorted array, max last */
static bool PQ_empty(const PQ *q) { return q->n == 0; }
static Event PQ_top(const PQ *q) { __CPROVER_assert(q->n > 0, "top of empty queue"); return q->e[q->n - 1]; }
static void PQ_pop(PQ *q) { __CPROVER_assert(q->n > 0, "pop of empty queue"); q->n--; }
static void PQ_emplace(PQ *q, ll a, ll b) { __CPROVER_assert(q->n < K, "BOUND: queue capacity"); Event x = {a, b}; int i = q->n; while (i > 0 && Event_lt(x, q->e[i-1])) { q->e[i] = q->e[i-1]; i--; } q->e[i] = x; q->n++; }
typedef struct {
  ll u[NS], v[NK], s[NS], d[NK]; int nsrc, nsnk;
  ll S[NS+1], D[NK+1];
  ll p[NS]; int p_size; PQ events; ll lastPosition; int lastOccupiedSink; int optimalSink;
} Solver;
#define u (this->u)
#define v (this->v)
#define s (this->s)
#define d (this->d)
#define S (this->S)
#define D (this->D)
#define p (this->p)
#define events (this->events)
#define lastPosition (this->lastPosition)
#define lastOccupiedSink (this->lastOccupiedSink)
#define optimalSink (this->optimalSink)
#define nbSources() (this->nsrc)
#define nbSinks() (this->nsnk)
#define totalDemand() (D[this->nsnk])
static ll cost(const Solver *this, int i, int j) { return std_abs(u[i] - v[j]); }
#define cost(i,j) cost(this, i, j)
static ll delta(const Solver *this, int i, int j) { return cost(i, j + 1) + cost(i + 1, j) - cost(i + 1, j + 1) - cost(i, j); }
#define delta(i,j) delta(this, i, j)
/* std::upper_bound / lower_bound on the sorted sink positions: trusted models */
static int upper_bound_v(const Solver *this, ll x) { int k = 0; while (k < nbSinks() && v[k] <= x) k++; return k; }
static int lower_bound_v(const Solver *this, ll x) { int k = 0; while (k < nbSinks() && v[k] < x) k++; return k; }

/* ---- bodies below are the repo's (transportation_1d.cpp), rewritten only by the rule vocabulary ---- */
static void flushPositions(Solver *this) {
  // Flush constraints from the right
  long long maxPos = totalDemand() - S[this->p_size];
  for (int i = this->p_size - 1; i >= 0; --i) {
    maxPos = std_min(p[i], maxPos);
    p[i] = maxPos;
  }
}
static void updateOptimalSink(Solver *this, int i) {
  int j = optimalSink;
  while (j + 1 < nbSinks() && cost(i, j) >= cost(i, j + 1)) {
    ++j;
  }
  optimalSink = j;
}
static long long getSlope(Solver *this, bool pop) {
  long long slope = 0LL;
  while (!PQ_empty(&events) && PQ_top(&events).first == lastPosition) {
    slope += PQ_top(&events).second;
    PQ_pop(&events);
  }
  if (!pop && slope != 0) {
    PQ_emplace(&events, lastPosition, slope);
  }
  return slope;
}
static void pushNewSinkEvents(Solver *this, int i, int j) {
  if (j <= lastOccupiedSink) {
    return;
  }
  for (int l = lastOccupiedSink; l < j; ++l) {
    long long pos = std_min(D[l + 1] - S[i], lastPosition);
    long long dd = cost(i, l) - cost(i, l + 1);
    if (pos > 0LL) {
      PQ_emplace(&events, pos, dd);
    }
  }
  lastOccupiedSink = j;
}
static void pushNewSourceEvents(Solver *this, int i) {
  if (i == 0) {
    return;
  }
  int b = upper_bound_v(this, u[i - 1]);
  b = std_max(b - 1, 0);
  int e = lower_bound_v(this, u[i]);
  e = std_min(e, lastOccupiedSink);
  for (int j = b; j < e; ++j) {
    long long pos = D[j + 1] - S[i];
    long long dd = delta(i - 1, j);
    if (pos > 0LL) {
      PQ_emplace(&events, pos, dd);
    }
  }
}
static void pushToLastSink(Solver *this, int i) {
  int j = lastOccupiedSink;
  long long minPos = std_max(D[j + 1] - S[i + 1], 0LL);
  long long slope = getSlope(this, true);
  if (PQ_empty(&events)) {
    lastPosition = minPos;
  } else {
    lastPosition = std_max(minPos, PQ_top(&events).first);
  }
  if (lastPosition > 0LL) {
    PQ_emplace(&events, lastPosition, slope);
  }
}
static void pushToNewSink(Solver *this, int i) {
  pushNewSinkEvents(this, i, lastOccupiedSink + 1);
}
static void pushOnce(Solver *this, int i) {
  int j = lastOccupiedSink;
  if (j == nbSinks() - 1) {
    pushToLastSink(this, i);
  } else if (lastPosition == 0LL) {
    pushToNewSink(this, i);
  } else {
    long long reducedCostRight = cost(i, j + 1);
    long long reducedCostLeft = getSlope(this, false) + cost(i, j);
    if (reducedCostLeft >= reducedCostRight) {
      pushToNewSink(this, i);
    } else {
      pushToLastSink(this, i);
    }
  }
}
static void push(Solver *this, int i) {
  updateOptimalSink(this, i);
  pushNewSourceEvents(this, i);
  lastPosition = std_max(lastPosition, D[optimalSink] - S[i]);
  pushNewSinkEvents(this, i, optimalSink);
  while (lastPosition > D[lastOccupiedSink + 1] - S[i + 1]) {
    pushOnce(this, i);
  }
  p[this->p_size++] = lastPosition;
}
static void run(Solver *this) {
  this->p_size = 0; events.n = 0;
  lastPosition = 0LL;
  lastOccupiedSink = 0;
  optimalSink = 0;
  for (int i = 0; i < nbSources(); ++i) {
    push(this, i);
  }
  flushPositions(this);
}
/* computeSolution, into an allocation matrix */
static void computeSolution(const Solver *this, ll alloc[NS][NK]) {
  int i = 0;
  int j = 0;
  while (i < (int)this->p_size && j < nbSinks()) {
    long long bi = S[i] + p[i];
    long long ei = S[i + 1] + p[i];
    long long bj = D[j];
    long long ej = D[j + 1];
    long long b = std_max(bi, bj);
    long long e = std_min(ei, ej);
    if (e - b > 0) {
      alloc[i][j] += e - b;
    }
    if (ei < ej) {
      ++i;
    } else {
      ++j;
    }
  }
}
#undef u
#undef v
#undef s
#undef d
#undef S
#undef D
#undef p
#undef events
int nondet_int(void);
void harness(void) {
  Solver sv; Solver *this = &sv;
  int ns = nondet_int(), nk = nondet_int();
  __CPROVER_assume(1 <= ns && ns <= NS && 1 <= nk && nk <= NK);
  sv.nsrc = ns; sv.nsnk = nk;
  ll tots = 0, totd = 0;
  sv.S[0] = 0; sv.D[0] = 0;
  for (int i = 0; i < NS; ++i) if (i < ns) { sv.u[i] = nondet_int(); sv.s[i] = nondet_int(); __CPROVER_assume(0 <= sv.u[i] && sv.u[i] <= 6 && 1 <= sv.s[i] && sv.s[i] <= 3 && (i == 0 || sv.u[i-1] <= sv.u[i])); sv.S[i+1] = sv.S[i] + sv.s[i]; tots += sv.s[i]; }
  for (int j = 0; j < NK; ++j) if (j < nk) { sv.v[j] = nondet_int(); sv.d[j] = nondet_int(); __CPROVER_assume(0 <= sv.v[j] && sv.v[j] <= 6 && 1 <= sv.d[j] && sv.d[j] <= 3 && (j == 0 || sv.v[j-1] <= sv.v[j])); sv.D[j+1] = sv.D[j] + sv.d[j]; totd += sv.d[j]; }
  __CPROVER_assume(tots <= totd);
  run(this);
  ll alloc[NS][NK] = {{0}};
  computeSolution(this, alloc);
  ll c = 0, calt = 0; ll alt[NS][NK];
  for (int j = 0; j < NK; ++j) { ll used = 0, usedalt = 0; for (int i = 0; i < NS; ++i) if (i < ns && j < nk) { used += alloc[i][j]; alt[i][j] = nondet_int(); __CPROVER_assume(0 <= alt[i][j] && alt[i][j] <= 3); usedalt += alt[i][j]; __CPROVER_assert(alloc[i][j] >= 0, "no negative allocation"); }
    if (j < nk) { __CPROVER_assert(used <= sv.d[j], "no sink over its demand"); __CPROVER_assume(usedalt <= sv.d[j]); } }
  for (int i = 0; i < NS; ++i) if (i < ns) { ll got = 0, gotalt = 0; for (int j = 0; j < NK; ++j) if (j < nk) { got += alloc[i][j]; gotalt += alt[i][j]; ll cij = sv.u[i] - sv.v[j]; if (cij < 0) cij = -cij; c += alloc[i][j] * cij; calt += alt[i][j] * cij; }
    __CPROVER_assert(got == sv.s[i], "every source fully allocated"); __CPROVER_assume(gotalt == sv.s[i]); }
  __CPROVER_assert(c <= calt, "plan has minimum total distance among all valid plans");
}
