set -e
SRC=/repo/src
FILES="coloquinte.cpp parameters.cpp export.cpp place_global/net_model.cpp place_global/density_legalizer.cpp place_global/density_grid.cpp place_global/place_global.cpp place_detailed/legalizer.cpp place_detailed/abacus_legalizer.cpp place_detailed/tetris_legalizer.cpp place_detailed/row_legalizer.cpp place_detailed/place_detailed.cpp place_detailed/detailed_placement.cpp place_detailed/incr_net_model.cpp place_detailed/row_neighbourhood.cpp place_global/transportation.cpp place_global/transportation_1d.cpp"
for f in $FILES; do o=$(echo $f | tr '/' '_').o; (clang++ -std=c++17 -O1 -g -fsanitize=address,undefined -fno-sanitize-recover=undefined -I$SRC -c $SRC/$f -o $o) & done; wait
ar rcs libcolo_san.a *.o
